"""E1 - loader: parse every module under <repo>/src/hio from the working tree.

Nothing is imported or executed.  An overlay {relative path: source text} can
replace files in memory (used by the sensitivity matrix / canaries only).
"""
import ast
import hashlib
import os
import warnings

REPO = os.environ.get("HIOLINT_REPO", "/repo")
SRC = os.path.join(REPO, "src")
PKG = "hio"


class AnalysisError(Exception):
    """The analysis itself cannot be trusted (exit 2)."""


_FLIP = {ast.Lt: ast.Gt, ast.Gt: ast.Lt, ast.LtE: ast.GtE, ast.GtE: ast.LtE, ast.Eq: ast.Eq, ast.NotEq: ast.NotEq}


def _constish(e):
    return isinstance(e, ast.Constant) or (isinstance(e, ast.UnaryOp) and isinstance(e.op, ast.USub) and isinstance(e.operand, ast.Constant))


class _Canon(ast.NodeTransformer):
    """Shape canonicalisation applied to every module before any rule sees it, so that rules do not depend on which of two equivalent
    spellings the author chose (all are pure syntax, no evaluation order changes for the operands involved):
      * `if not c: A else: B`  ->  `if c: B else: A`   (plain if/else; elif chains and else-less ifs are left alone)
      * `A if not c else B`    ->  `B if c else A`
      * `<const> OP x`         ->  `x OP' <const>`     (OP in < <= > >= == !=; constants have no side effects)
    Line numbers of the surviving nodes are those of the source."""

    def visit_If(self, node):
        self.generic_visit(node)
        if node.orelse and not (len(node.orelse) == 1 and isinstance(node.orelse[0], ast.If)) \
                and isinstance(node.test, ast.UnaryOp) and isinstance(node.test.op, ast.Not):
            node.test, node.body, node.orelse = node.test.operand, node.orelse, node.body
        return node

    def visit_IfExp(self, node):
        self.generic_visit(node)
        if isinstance(node.test, ast.UnaryOp) and isinstance(node.test.op, ast.Not):
            node.test, node.body, node.orelse = node.test.operand, node.orelse, node.body
        return node

    def visit_Compare(self, node):
        self.generic_visit(node)
        if len(node.ops) == 1 and type(node.ops[0]) in _FLIP and _constish(node.left) and not _constish(node.comparators[0]):
            node.left, node.comparators, node.ops = node.comparators[0], [node.left], [_FLIP[type(node.ops[0])]()]
        return node


class Module:
    __slots__ = ("name", "path", "relpath", "source", "tree", "sha", "lines", "is_pkg")

    def __init__(self, name, path, relpath, source, is_pkg):
        self.name = name
        self.path = path
        self.relpath = relpath
        self.source = source
        self.is_pkg = is_pkg
        self.sha = hashlib.sha256(source.encode("utf-8")).hexdigest()
        self.lines = source.splitlines()
        try:
            with warnings.catch_warnings():
                warnings.simplefilter('ignore')
                self.tree = ast.parse(source, filename=path)
        except SyntaxError as ex:
            raise AnalysisError("unparsable module %s: %s" % (relpath, ex))
        self.tree = _Canon().visit(self.tree)
        for node in ast.walk(self.tree):
            for child in ast.iter_child_nodes(node):
                child._parent = node
        self.tree._parent = None
        self.tree._module = self

    def segment(self, node):
        return ast.get_source_segment(self.source, node) or ""


_CACHE = {}


def load_modules(overlay=None, src=None):
    """Return {module name: Module} for the whole package."""
    src = src or SRC
    overlay = overlay or {}
    root = os.path.join(src, PKG)
    if not os.path.isdir(root):
        raise AnalysisError("package directory missing: %s" % root)
    mods = {}
    for dirpath, dirnames, filenames in os.walk(root):
        dirnames[:] = sorted(d for d in dirnames if d != "__pycache__")
        for fn in sorted(filenames):
            if not fn.endswith(".py"):
                continue
            path = os.path.join(dirpath, fn)
            rel = os.path.relpath(path, os.path.dirname(src))  # src/hio/...
            parts = os.path.relpath(path, src)[:-3].split(os.sep)
            is_pkg = parts[-1] == "__init__"
            if is_pkg:
                parts = parts[:-1]
            name = ".".join(parts)
            if rel in overlay:
                source = overlay[rel]
                mods[name] = Module(name, path, rel, source, is_pkg)
                continue
            with open(path, "r", encoding="utf-8") as f:
                source = f.read()
            key = (path, hashlib.sha256(source.encode("utf-8")).hexdigest())
            m = _CACHE.get(key)
            if m is None:
                m = Module(name, path, rel, source, is_pkg)
                _CACHE[key] = m
            mods[name] = m
    if not mods:
        raise AnalysisError("no modules found under %s" % root)
    return mods
