"""E1 - loader: parse every module under <repo>/src/hio from the working tree.

Nothing is imported or executed.  An overlay {relative path: source text} can
replace files in memory (used by the sensitivity matrix / canaries only).
"""
import ast
import hashlib
import os
import warnings

REPO = os.environ.get("HIOLINT_REPO", "/repo")
SRC = os.path.join(REPO, "src")
PKG = "hio"


class AnalysisError(Exception):
    """The analysis itself cannot be trusted (exit 2)."""


_FLIP = {ast.Lt: ast.Gt, ast.Gt: ast.Lt, ast.LtE: ast.GtE, ast.GtE: ast.LtE, ast.Eq: ast.Eq, ast.NotEq: ast.NotEq}


def _constish(e):
    return isinstance(e, ast.Constant) or (isinstance(e, ast.UnaryOp) and isinstance(e.op, ast.USub) and isinstance(e.operand, ast.Constant))


_PURE_NODES = (ast.Constant, ast.Name, ast.Attribute, ast.Subscript, ast.Compare, ast.BoolOp, ast.BinOp, ast.UnaryOp, ast.Tuple, ast.IfExp,
               ast.Load, ast.Store, ast.operator, ast.unaryop, ast.boolop, ast.cmpop, ast.Slice, ast.expr_context)


def _own_nodes(fn):
    """nodes of fn's own scope (nested defs / lambdas / comprehensions excluded)"""
    stack = list(ast.iter_child_nodes(fn))
    while stack:
        n = stack.pop()
        yield n
        if isinstance(n, (ast.FunctionDef, ast.AsyncFunctionDef, ast.ClassDef, ast.Lambda, ast.ListComp, ast.SetComp, ast.DictComp, ast.GeneratorExp)):
            continue
        stack.extend(ast.iter_child_nodes(n))


def _propagate_temps(fn):
    """A local that is assigned exactly once, from an expression without calls, and only read afterwards inside the block it is defined in,
    is a name for that expression: its reads are replaced by the expression and the assignment is dropped (`due = a <= b; if due:` is
    `if a <= b:`), provided no operand is re-bound between the definition and a read.  Attribute / subscript operands are accepted only on
    names bound by `except ... as` (exception objects) or when every read is in the statement that directly follows the definition."""
    params = {a.arg for a in fn.args.posonlyargs + fn.args.args + fn.args.kwonlyargs}
    if fn.args.vararg:
        params.add(fn.args.vararg.arg)
    if fn.args.kwarg:
        params.add(fn.args.kwarg.arg)
    nodes = list(_own_nodes(fn))
    if any(isinstance(n, (ast.Global, ast.Nonlocal)) for n in nodes):
        return
    # names also touched in nested scopes are left alone
    nested = set()
    for n in ast.walk(fn):
        if n is fn or not isinstance(n, (ast.Lambda, ast.ListComp, ast.SetComp, ast.DictComp, ast.GeneratorExp, ast.FunctionDef, ast.AsyncFunctionDef)):
            continue
        bound = set()
        if isinstance(n, (ast.Lambda, ast.FunctionDef, ast.AsyncFunctionDef)):
            a_ = n.args
            bound |= {x.arg for x in a_.posonlyargs + a_.args + a_.kwonlyargs}
            bound |= {x.arg for x in (a_.vararg, a_.kwarg) if x is not None}
        else:
            bound |= {m.id for g in n.generators for m in ast.walk(g.target) if isinstance(m, ast.Name)}
        bound |= {m.id for m in ast.walk(n) if isinstance(m, ast.Name) and isinstance(m.ctx, ast.Store)}
        nested |= {m.id for m in ast.walk(n) if isinstance(m, ast.Name)} - bound      # names free in a nested scope
    stores = {}
    for n in nodes:
        if isinstance(n, ast.Name) and isinstance(n.ctx, (ast.Store, ast.Del)):
            stores.setdefault(n.id, []).append(n)
        elif isinstance(n, ast.ExceptHandler) and n.name:
            stores.setdefault(n.name, []).append(n)
    excnames = {n.name for n in nodes if isinstance(n, ast.ExceptHandler) and n.name}

    def blocks(node):
        for fld in ("body", "orelse", "finalbody"):
            b = getattr(node, fld, None)
            if isinstance(b, list) and b and isinstance(b[0], ast.stmt):
                yield b
        for h in getattr(node, "handlers", []) or []:
            yield h.body

    def all_blocks(node):
        for b in blocks(node):
            yield b
            for st in b:
                if not isinstance(st, (ast.FunctionDef, ast.AsyncFunctionDef, ast.ClassDef)):
                    yield from all_blocks(st)

    for blk in list(all_blocks(fn)):
        i = 0
        while i < len(blk):
            st = blk[i]
            i += 1
            if not (isinstance(st, ast.Assign) and len(st.targets) == 1 and isinstance(st.targets[0], ast.Name)):
                continue
            name = st.targets[0].id
            if name in params or name in nested or len(stores.get(name, [])) != 1 or name in excnames:
                continue
            val = st.value
            if isinstance(val, (ast.Constant, ast.Name)) or not all(isinstance(x, _PURE_NODES) for x in ast.walk(val)):
                continue        # constants / plain aliases carry meaning for the rules (flags, markers); calls are not pure
            later = blk[blk.index(st) + 1:]
            uses = [x for n_ in later for x in ast.walk(n_) if isinstance(x, ast.Name) and x.id == name and isinstance(x.ctx, ast.Load)]
            alluses = [x for x in nodes if isinstance(x, ast.Name) and x.id == name and isinstance(x.ctx, ast.Load)]
            if not uses or len(uses) != len(alluses) or len(uses) > (12 if isinstance(val, ast.Attribute) else 4):
                continue
            ops = {x.id for x in ast.walk(val) if isinstance(x, ast.Name)}
            last = max(u.lineno for u in uses)
            if any(s_.lineno > st.lineno and s_.lineno <= last for o in ops for s_ in stores.get(o, []) if hasattr(s_, "lineno")):
                continue
            attrs = [x for x in ast.walk(val) if isinstance(x, (ast.Attribute, ast.Subscript))]
            if attrs:
                bases = set()
                for x in attrs:
                    b_ = x
                    while isinstance(b_, (ast.Attribute, ast.Subscript)):
                        b_ = b_.value
                    bases.add(b_.id if isinstance(b_, ast.Name) else None)
                nxt = later[0] if later else None
                in_next_header = nxt is not None and all(any(u is x for x in ast.walk(_header(nxt))) for u in uses)
                # `p = self.path`: an alias of an attribute that this function never stores and that no method call on self can re-bind
                # between the definition and the last read
                self_alias = False
                if bases <= (excnames | {"self"}) and isinstance(val, ast.Attribute) and isinstance(val.value, ast.Name) and val.value.id == "self":
                    stored_attr = any(isinstance(x, ast.Attribute) and isinstance(x.ctx, (ast.Store, ast.Del)) and isinstance(x.value, ast.Name)
                                      and x.value.id == "self" and x.attr == val.attr for x in nodes)
                    self_calls = any(isinstance(x, ast.Call) and isinstance(x.func, ast.Attribute) and isinstance(x.func.value, ast.Name)
                                     and x.func.value.id == "self" and st.lineno < getattr(x, "lineno", 0) <= last for x in nodes)
                    self_alias = not stored_attr and not self_calls
                if not (bases <= excnames or in_next_header or self_alias):
                    continue
            # substitute
            class R(ast.NodeTransformer):
                def visit_Name(self, n):
                    if n.id == name and isinstance(n.ctx, ast.Load):
                        return _clone(val)
                    return n
            for n_ in later:
                R().visit(n_)
            blk.remove(st)
            i -= 1
            if not blk:
                blk.append(ast.copy_location(ast.Pass(), st))


def _clone(e):
    """structural copy of a (pure) expression; much cheaper than copy.deepcopy"""
    if isinstance(e, list):
        return [_clone(x) for x in e]
    if not isinstance(e, ast.AST):
        return e
    new = type(e)()
    for k, v in e.__dict__.items():
        if k == "_parent":
            continue
        setattr(new, k, _clone(v) if isinstance(v, (ast.AST, list)) else v)
    return new


def _header(st):
    """the part of a statement that is evaluated before any nested block runs"""
    if isinstance(st, (ast.If, ast.While)):
        return st.test
    if isinstance(st, (ast.For, ast.AsyncFor)):
        return st.iter
    if isinstance(st, (ast.With, ast.AsyncWith)):
        return ast.Tuple(elts=[i.context_expr for i in st.items], ctx=ast.Load())
    if isinstance(st, ast.Try):
        return ast.Constant(value=None)
    return st


class _Canon(ast.NodeTransformer):
    """Shape canonicalisation applied to every module before any rule sees it, so that rules do not depend on which of two equivalent
    spellings the author chose (all are pure syntax, no evaluation order changes for the operands involved):
      * `if not c: A else: B`  ->  `if c: B else: A`   (plain if/else; elif chains and else-less ifs are left alone)
      * `A if not c else B`    ->  `B if c else A`
      * `<const> OP x`         ->  `x OP' <const>`     (OP in < <= > >= == !=; constants have no side effects)
    Line numbers of the surviving nodes are those of the source."""

    def _in_loop(self, node):
        return False        # nested blocks: only the return/raise form is applied (loop membership is not tracked below the loop body)

    @staticmethod
    def _jumps(block, kinds):
        return bool(block) and isinstance(block[-1], kinds)

    def _guards(self, body, in_loop):
        """structured form of guard clauses inside one statement list:
             if c: X; continue        (no else)   + REST   ->  if c: X  else: REST          (loop bodies only)
             try: T except E: H; continue         + REST   ->  try: T except E: H else: REST   (loop bodies only; no else/finally before)
        `continue` as the last statement of a loop body is then redundant and dropped."""
        out = list(body)
        i = 0
        while i < len(out):
            st = out[i]
            rest = out[i + 1:]
            if in_loop and rest and isinstance(st, ast.If) and not st.orelse and self._jumps(st.body, ast.Continue):
                st.body = st.body[:-1] or [ast.copy_location(ast.Pass(), st)]
                st.orelse = self._guards(rest, in_loop)
                self._positive(st)
                out = out[:i + 1]
                break
            # guard clause that leaves (return / raise / break): the rest is its else branch
            if rest and isinstance(st, ast.If) and not st.orelse and self._jumps(st.body, (ast.Return, ast.Raise, ast.Break)) \
                    and not (isinstance(st.body[-1], ast.Break) and not in_loop):
                st.orelse = self._guards(rest, in_loop)
                self._positive(st)
                out = out[:i + 1]
                break
            if in_loop and rest and isinstance(st, ast.Try) and not st.orelse and not st.finalbody and st.handlers \
                    and all(self._jumps(h.body, (ast.Continue, ast.Raise, ast.Return, ast.Break)) for h in st.handlers) \
                    and any(self._jumps(h.body, ast.Continue) for h in st.handlers):
                for h in st.handlers:
                    if self._jumps(h.body, ast.Continue):
                        h.body = h.body[:-1] or [ast.copy_location(ast.Pass(), h)]
                st.orelse = self._guards(rest, in_loop)
                out = out[:i + 1]
                break
            i += 1
        if in_loop and len(out) > 1 and isinstance(out[-1], ast.Continue):
            out = out[:-1]
        return out

    def _loop(self, node):
        self.generic_visit(node)
        # `while True: if c: break` + REST  is  `while not c: REST`
        if isinstance(node, ast.While) and isinstance(node.test, ast.Constant) and node.test.value is True and not node.orelse and len(node.body) > 1:
            first = node.body[0]
            if isinstance(first, ast.If) and not first.orelse and len(first.body) == 1 and isinstance(first.body[0], ast.Break) \
                    and not any(isinstance(x, ast.Break) for st in node.body[1:] for x in ast.walk(st)):
                t = first.test
                node.test = t.operand if isinstance(t, ast.UnaryOp) and isinstance(t.op, ast.Not) else ast.copy_location(ast.UnaryOp(op=ast.Not(), operand=t), t)
                node.body = node.body[1:]
        node.body = self._guards(node.body, True)
        # `while c: B; break` runs B at most once: it is `if c: B`
        if isinstance(node, ast.While) and not node.orelse and self._jumps(node.body, ast.Break) and len(node.body) > 1 \
                and not any(isinstance(x, (ast.Continue, ast.Break)) for st in node.body[:-1] for x in ast.walk(st)
                            if not isinstance(x, (ast.For, ast.While))):
            inner_loops = [x for st in node.body[:-1] for x in ast.walk(st) if isinstance(x, (ast.For, ast.While))]
            if not inner_loops:
                return ast.copy_location(ast.If(test=node.test, body=node.body[:-1], orelse=[]), node)
        return node

    def visit_For(self, node):
        return self._loop(node)

    def visit_While(self, node):
        return self._loop(node)

    def visit_Try(self, node):
        self.generic_visit(node)
        node.body = self._guards(node.body, False)
        for h in node.handlers:
            h.body = self._guards(h.body, False)
        if node.orelse:
            node.orelse = self._guards(node.orelse, False)
        return node

    def visit_With(self, node):
        self.generic_visit(node)
        node.body = self._guards(node.body, False)
        return node

    @staticmethod
    def _filter_loops(block):
        """`L = []` + `for x in IT: if C: L.append(x)` (or the else-side form) is `L = [x for x in IT if C]`"""
        i = 0
        while i + 1 < len(block):
            a, lp = block[i], block[i + 1]
            i += 1
            if not (isinstance(a, ast.Assign) and len(a.targets) == 1 and isinstance(a.targets[0], ast.Name)
                    and isinstance(a.value, ast.List) and not a.value.elts):
                continue
            if not (isinstance(lp, ast.For) and isinstance(lp.target, ast.Name) and not lp.orelse and len(lp.body) == 1 and isinstance(lp.body[0], ast.If)):
                continue
            name, var, cond = a.targets[0].id, lp.target.id, lp.body[0]

            def is_append(stmts):
                return len(stmts) == 1 and isinstance(stmts[0], ast.Expr) and isinstance(stmts[0].value, ast.Call) \
                    and isinstance(stmts[0].value.func, ast.Attribute) and stmts[0].value.func.attr == "append" \
                    and isinstance(stmts[0].value.func.value, ast.Name) and stmts[0].value.func.value.id == name \
                    and len(stmts[0].value.args) == 1 and isinstance(stmts[0].value.args[0], ast.Name) and stmts[0].value.args[0].id == var

            def is_noop(stmts):
                return not stmts or all(isinstance(x, ast.Pass) for x in stmts)
            test = None
            if is_append(cond.body) and is_noop(cond.orelse):
                test = cond.test
            elif is_noop(cond.body) and is_append(cond.orelse):
                t = cond.test
                if isinstance(t, ast.Compare) and len(t.ops) == 1 and isinstance(t.ops[0], (ast.In, ast.NotIn, ast.Is, ast.IsNot, ast.Eq, ast.NotEq)):
                    flip = {ast.In: ast.NotIn, ast.NotIn: ast.In, ast.Is: ast.IsNot, ast.IsNot: ast.Is, ast.Eq: ast.NotEq, ast.NotEq: ast.Eq}
                    test = ast.copy_location(ast.Compare(left=t.left, ops=[flip[type(t.ops[0])]()], comparators=t.comparators), t)
                else:
                    test = ast.copy_location(ast.UnaryOp(op=ast.Not(), operand=t), t)
            if test is None:
                continue
            comp = ast.ListComp(elt=ast.Name(id=var, ctx=ast.Load()), generators=[ast.comprehension(target=ast.Name(id=var, ctx=ast.Store()), iter=lp.iter, ifs=[test], is_async=0)])
            a.value = ast.copy_location(comp, lp)
            ast.fix_missing_locations(a)
            del block[i]

    def visit_FunctionDef(self, node):
        self.generic_visit(node)
        self._filter_loops(node.body)
        _propagate_temps(node)
        node.body = self._guards(node.body, False)
        return node

    visit_AsyncFunctionDef = visit_FunctionDef

    _NEG = {ast.NotIn: ast.In, ast.IsNot: ast.Is, ast.NotEq: ast.Eq}

    def _positive(self, node):
        """if/else with a negative test -> positive test, branches swapped (plain if/else only)"""
        t = node.test
        if node.orelse and isinstance(t, ast.UnaryOp) and isinstance(t.op, ast.Not):
            # an explicit `not` is always removed, also when the else branch is a single if statement (nested guards look like that)
            node.test, node.body, node.orelse = t.operand, node.orelse, node.body
            return node
        if node.orelse and not (len(node.orelse) == 1 and isinstance(node.orelse[0], ast.If)):
            if isinstance(t, ast.UnaryOp) and isinstance(t.op, ast.Not):
                node.test, node.body, node.orelse = t.operand, node.orelse, node.body
            elif isinstance(t, ast.Compare) and len(t.ops) == 1 and type(t.ops[0]) in self._NEG:
                t.ops = [self._NEG[type(t.ops[0])]()]
                node.body, node.orelse = node.orelse, node.body
        return node

    def visit_If(self, node):
        self.generic_visit(node)
        node.body = self._guards(node.body, self._in_loop(node))
        if node.orelse:
            node.orelse = self._guards(node.orelse, self._in_loop(node))
        self._positive(node)
        # `if x not in T: <if/elif chain>` (no else) is the chain with a leading no-op arm `if x in T: pass`
        t = node.test
        if not node.orelse and isinstance(t, ast.Compare) and len(t.ops) == 1 and isinstance(t.ops[0], ast.NotIn) \
                and len(node.body) == 1 and isinstance(node.body[0], ast.If):
            t.ops = [ast.In()]
            node.orelse = node.body
            node.body = [ast.copy_location(ast.Pass(), node)]
        if node.orelse and not (len(node.orelse) == 1 and isinstance(node.orelse[0], ast.If)) \
                and isinstance(node.test, ast.UnaryOp) and isinstance(node.test.op, ast.Not):
            node.test, node.body, node.orelse = node.test.operand, node.orelse, node.body
        return node

    def visit_IfExp(self, node):
        self.generic_visit(node)
        if isinstance(node.test, ast.UnaryOp) and isinstance(node.test.op, ast.Not):
            node.test, node.body, node.orelse = node.test.operand, node.orelse, node.body
        return node

    def visit_Compare(self, node):
        self.generic_visit(node)
        if len(node.ops) == 1 and type(node.ops[0]) in _FLIP and _constish(node.left) and not _constish(node.comparators[0]):
            node.left, node.comparators, node.ops = node.comparators[0], [node.left], [_FLIP[type(node.ops[0])]()]
        return node


class Module:
    __slots__ = ("name", "path", "relpath", "source", "tree", "sha", "lines", "is_pkg")

    def __init__(self, name, path, relpath, source, is_pkg):
        self.name = name
        self.path = path
        self.relpath = relpath
        self.source = source
        self.is_pkg = is_pkg
        self.sha = hashlib.sha256(source.encode("utf-8")).hexdigest()
        self.lines = source.splitlines()
        try:
            with warnings.catch_warnings():
                warnings.simplefilter('ignore')
                self.tree = ast.parse(source, filename=path)
        except SyntaxError as ex:
            raise AnalysisError("unparsable module %s: %s" % (relpath, ex))
        self.tree = _Canon().visit(self.tree)
        for node in ast.walk(self.tree):
            for child in ast.iter_child_nodes(node):
                child._parent = node
        self.tree._parent = None
        self.tree._module = self

    def segment(self, node):
        return ast.get_source_segment(self.source, node) or ""


_CACHE = {}


def load_modules(overlay=None, src=None):
    """Return {module name: Module} for the whole package."""
    src = src or SRC
    overlay = overlay or {}
    root = os.path.join(src, PKG)
    if not os.path.isdir(root):
        raise AnalysisError("package directory missing: %s" % root)
    mods = {}
    for dirpath, dirnames, filenames in os.walk(root):
        dirnames[:] = sorted(d for d in dirnames if d != "__pycache__")
        for fn in sorted(filenames):
            if not fn.endswith(".py"):
                continue
            path = os.path.join(dirpath, fn)
            rel = os.path.relpath(path, os.path.dirname(src))  # src/hio/...
            parts = os.path.relpath(path, src)[:-3].split(os.sep)
            is_pkg = parts[-1] == "__init__"
            if is_pkg:
                parts = parts[:-1]
            name = ".".join(parts)
            if rel in overlay:
                source = overlay[rel]
                mods[name] = Module(name, path, rel, source, is_pkg)
                continue
            with open(path, "r", encoding="utf-8") as f:
                source = f.read()
            key = (path, hashlib.sha256(source.encode("utf-8")).hexdigest())
            m = _CACHE.get(key)
            if m is None:
                m = Module(name, path, rel, source, is_pkg)
                _CACHE[key] = m
            mods[name] = m
    if not mods:
        raise AnalysisError("no modules found under %s" % root)
    return mods
