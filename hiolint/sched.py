"""Scheduler facts shared by C01-C06 and C30 (hio.base.doing).

Every extractor returns a list of Fact(name, value, ok, site, what, trail, paths);
facts are *values computed from the code* (typestate verdicts, deque ends,
canonical comparisons, dependence sets) so that the sibling checks C04/C30 can
compare them across Doist / DoDoer and do / ado without comparing text.
"""
import ast

from .absint import Domain, Interp, NORMAL, RETURN, BREAK, CONTINUE, RAISE, is_raise
from .astutil import is_self_call, method_call, unparse, enclosing, parent, assigned_names, ancestors, keytext, flat, oriented
from .deps import DepDomain, fs
from .index import dotted, walk_local
from .loader import AnalysisError

MOD = "hio.base.doing"
LIFE = ("enter", "recur", "clean", "cease", "abort", "exit")
ENDERS = ("clean", "cease", "abort")


class Fact:
    def __init__(self, name, value, ok, site, what="", trail=None, paths=0):
        self.name, self.value, self.ok, self.site, self.what = name, value, ok, site, what
        self.trail, self.paths = trail, paths


# ------------------------------------------------------------------ C01.R1
class LifecycleDomain(Domain):
    """state = (seq of lifecycle labels with recur collapsed, cause)"""

    def initial(self):
        return ((), None)

    def _push(self, state, label):
        seq, cause = state
        if label == "recur" and seq and seq[-1] == "recur":
            return state
        if len(seq) >= 10:
            return (seq[:9] + ("overflow",), cause)
        return (seq + (label,), cause)

    def on_event(self, node, state):
        if isinstance(node, ast.Call):
            m = is_self_call(node)
            if m in LIFE:
                state = self._push(state, m)
                yield state, NORMAL
                # a `yield from self.recur()` creates the generator here: nothing raises yet
                if not isinstance(parent(node), ast.YieldFrom):
                    yield state, RAISE("Exception")
                return
            yield state, NORMAL
            yield state, RAISE("Exception")
            return
        if isinstance(node, (ast.Yield, ast.YieldFrom)):
            yield state, NORMAL
            yield state, RAISE("GeneratorExit")
            yield state, RAISE("Exception")
            return
        yield state, NORMAL

    def on_store(self, target, value, state, stmt):
        return state

    def on_handler(self, handler, kind, state):
        return (state[0], kind)


def lifecycle_verdict(seq, cause, oc):
    """None if well-formed, else reason."""
    seq = tuple(x for x in seq)
    if "overflow" in seq:
        return "lifecycle calls repeat unboundedly: %s" % (seq,)
    if "enter" not in seq:
        if seq in ((), ("abort", "exit")):
            return None
        return "lifecycle calls %s without enter" % (seq,)
    i = seq.index("enter")
    if seq[:i]:
        return "lifecycle call %s before enter" % (seq[:i],)
    rest = list(seq[i + 1:])
    while rest and rest[0] == "recur":
        rest.pop(0)
    if len(rest) != 2 or rest[0] not in ENDERS or rest[1] != "exit":
        return "after enter/recur the calls are %s, expected exactly one of clean/cease/abort then exit" % (tuple(rest),)
    ender = rest[0]
    if cause is None:
        if ender != "clean":
            return "no exception caught but ender is %s" % ender
    elif cause == "GeneratorExit":
        if ender != "cease":
            return "GeneratorExit (forced close) handled by %s, expected cease" % ender
        if is_raise(oc) and oc[1] == "GeneratorExit":
            return None
    else:
        if ender != "abort":
            return "exception %s handled by %s, expected abort" % (cause, ender)
        if not is_raise(oc):
            return "exception %s swallowed: generator returns after abort" % cause
    return None


def lifecycle_facts(run, f):
    dom = LifecycleDomain()
    res = Interp(dom, run.lat).run(f.node)
    run.paths += len(res)
    facts = []
    classes = {}
    for (st, oc), tr in sorted(res.items(), key=lambda kv: (str(kv[0]), kv[1])):
        seq, cause = st
        bad = lifecycle_verdict(seq, cause, oc)
        label = "%s|cause=%s|%s" % ("-".join(seq) or "none", cause, oc[0] + (":" + oc[1] if is_raise(oc) else ""))
        classes[label] = (bad, tr)
    for label, (bad, tr) in classes.items():
        facts.append(Fact("lifecycle:" + label, bad is None, bad is None, run.site(f), bad or "", tr, 1))
    # the generator must reach exit at all (vacuity guard)
    if not any("exit" in st[0] for (st, oc) in res):
        facts.append(Fact("lifecycle:reaches-exit", False, False, run.site(f), "no path calls self.exit()"))
    return facts


# ------------------------------------------------------------------ C01.R2
class BracketDomain(Domain):
    """state = (entered, exits, after) for Doist.do/ado: every outcome after
    self.enter() passes self.exit() exactly once and last."""

    KINDS = ("Exception", "KeyboardInterrupt", "SystemExit")

    def initial(self):
        return (False, 0, False)

    def on_event(self, node, state):
        entered, exits, after = state
        if isinstance(node, ast.Call):
            m = is_self_call(node)
            if m == "enter":
                state = (True, exits, after or exits > 0)
            elif m == "exit":
                state = (entered, min(exits + 1, 2), after)
            elif m in ("recur",):
                state = (entered, exits, after or exits > 0)
            yield state, NORMAL
            for k in self.KINDS:
                yield state, RAISE(k)
            return
        if isinstance(node, ast.Await):
            yield state, NORMAL
            for k in self.KINDS + ("CancelledError",):
                yield state, RAISE(k)
            return
        yield state, NORMAL


def bracket_facts(run, f):
    res = Interp(BracketDomain(), run.lat).run(f.node)
    run.paths += len(res)
    facts = []
    seen_enter = False
    for (st, oc), tr in sorted(res.items(), key=lambda kv: str(kv[0])):
        entered, exits, after = st
        if not entered:
            continue
        seen_enter = True
        bad = None
        if exits != 1:
            bad = "self.exit() called %s times on outcome %s after self.enter()" % (exits if exits < 2 else "2+", oc)
        elif after:
            bad = "self.enter()/self.recur() called after self.exit() on outcome %s" % (oc,)
        label = "%s" % (oc[0] + (":" + oc[1] if is_raise(oc) else ""))
        facts.append(Fact("bracket:" + label + ":exits=%d" % exits, bad is None, bad is None, run.site(f), bad or "", tr, 1))
    if not seen_enter:
        facts.append(Fact("bracket:enter-present", False, False, run.site(f), "self.enter() is never called"))
    return facts


# ---------------------------------------------------- loops over the deque
def deque_loops(f):
    """Loops in f whose body pops a deed: returns list of (loop, popcall, deqname, end, targets)."""
    out = []
    for loop in [n for n in walk_local(f.node) if isinstance(n, (ast.While, ast.For))]:
        for st in loop.body:
            if isinstance(st, ast.Assign) and isinstance(st.value, ast.Call):
                mc = method_call(st.value)
                if mc and mc[1] in ("pop", "popleft") and mc[0] and not st.value.args:
                    out.append((loop, st, mc[0], "left" if mc[1] == "popleft" else "right",
                                assigned_names(st.targets[0])))
    return out


def loop_test_is_nonempty(loop, deq):
    """`while deeds` / `while len(deeds)` / `while len(deeds) > 0` / for _ in range(len(deeds))"""
    if isinstance(loop, ast.While):
        t = loop.test
        if isinstance(t, ast.Name) and t.id == deq:
            return "until-empty"
        if isinstance(t, ast.Call) and dotted(t.func) == "len" and dotted(t.args[0]) == deq:
            return "until-empty"
        if isinstance(t, ast.Compare) and isinstance(t.left, ast.Call) and dotted(t.left.func) == "len" \
                and dotted(t.left.args[0]) == deq and len(t.ops) == 1 \
                and isinstance(t.ops[0], (ast.Gt, ast.NotEq)) and getattr(t.comparators[0], "value", None) == 0:
            return "until-empty"
        # counted form: N = len(deq) before the loop, `while N > 0` (or `while N`), N decremented by one once per iteration
        o = oriented(t, lambda e: isinstance(e, ast.Name)) if isinstance(t, ast.Compare) else ((t, "Gt", ast.Constant(value=0)) if isinstance(t, ast.Name) else None)
        if o and o[1] in ("Gt", "NotEq") and getattr(o[2], "value", None) == 0:
            n = o[0].id
            fn = parent(loop)
            while fn is not None and not isinstance(fn, (ast.FunctionDef, ast.AsyncFunctionDef)):
                fn = parent(fn)
            inits = [a for a in (walk_local(fn) if fn is not None else []) if isinstance(a, ast.Assign) and dotted(a.targets[0]) == n]
            decs = [a for a in ast.walk(loop) if isinstance(a, ast.AugAssign) and dotted(a.target) == n]
            if len(inits) == 1 and isinstance(inits[0].value, ast.Call) and dotted(inits[0].value.func) == "len" and inits[0].value.args \
                    and dotted(inits[0].value.args[0]) == deq and inits[0].lineno < loop.lineno \
                    and len(decs) == 1 and isinstance(decs[0].op, ast.Sub) and getattr(decs[0].value, "value", None) == 1 and decs[0] in loop.body:
                return "len-times"
        return None
    if isinstance(loop, ast.For):
        it = loop.iter
        if isinstance(it, ast.Call) and dotted(it.func) == "range" and len(it.args) == 1 \
                and isinstance(it.args[0], ast.Call) and dotted(it.args[0].func) == "len" \
                and dotted(it.args[0].args[0]) == deq:
            return "len-times"
    return None


class DeedDomain(Domain):
    """Fate of the deed popped in one loop iteration.
    state = (held, marker, appended, moved, finished, closed)"""

    def __init__(self, deq, dogvar, raise_calls=True):
        self.deq, self.dog = deq, dogvar
        self.raise_calls = raise_calls

    def initial(self):
        return (False, None, 0, 0, False, False)

    def on_event(self, node, state):
        held, marker, app, moved, fin, closed = state
        if isinstance(node, ast.Call):
            mc = method_call(node)
            if mc:
                recv, meth = mc
                if recv == self.deq and meth in ("pop", "popleft") and not node.args:
                    yield (True, None, 0, 0, False, False), NORMAL
                    yield state, RAISE("IndexError")
                    return
                if meth in ("append", "appendleft") and node.args and isinstance(node.args[0], ast.Tuple) \
                        and node.args[0].elts and dotted(node.args[0].elts[0]) == self.dog:
                    if recv == self.deq:
                        yield (held, marker, min(app + 1, 2), moved, fin, closed), NORMAL
                    else:
                        yield (held, marker, app, min(moved + 1, 2), fin, closed), NORMAL
                    return
                if recv == self.dog and meth == "close":
                    yield (held, marker, app, moved, fin, True), NORMAL
                    yield (held, marker, app, moved, fin, True), RAISE("Exception")
                    return
                if recv == self.dog and meth in ("send", "throw", "__next__"):
                    yield state, NORMAL
                    yield state, RAISE("StopIteration")
                    yield state, RAISE("Exception")
                    return
            if dotted(node.func) == "next" and node.args and dotted(node.args[0]) == self.dog:
                yield state, NORMAL
                yield state, RAISE("StopIteration")
                yield state, RAISE("Exception")
                return
            yield state, NORMAL
            return
        yield state, NORMAL

    def on_store(self, target, value, state, stmt):
        # attribute stores on the doer may raise AttributeError (bound method doers): the
        # repo guards them with try/except AttributeError; model the raise so both arms run
        return state

    def on_handler(self, handler, kind, state):
        held, marker, app, moved, fin, closed = state
        if kind == "StopIteration":
            return (held, marker, app, moved, True, closed)
        return state

    def assume(self, test, truth, state):
        held, marker, app, moved, fin, closed = state
        t, neg = test, False
        while isinstance(t, ast.UnaryOp) and isinstance(t.op, ast.Not):
            t, neg = t.operand, not neg
        if dotted(t) == self.dog:
            is_dog = truth != neg            # truthiness of dog
            if marker is not None and marker == is_dog:
                return None
            return (held, not is_dog, app, moved, fin, closed)
        if isinstance(t, ast.Compare) and dotted(t.left) == self.dog and len(t.ops) == 1 \
                and isinstance(t.ops[0], (ast.Is, ast.IsNot)) and getattr(t.comparators[0], "value", 0) is None:
            is_none = (truth != neg) == isinstance(t.ops[0], ast.Is)
            if marker is not None and marker != is_none:
                return None
            return (held, is_none, app, moved, fin, closed)
        return super().assume(test, truth, state)


class StoreRaises(DeedDomain):
    """Same, but `doer.done = ...` may raise AttributeError (so the except arms are explored)."""

    def after_stmt(self, stmt, state):
        return state


def deed_fates(run, f, loop, popstmt, deq, names):
    """Run one iteration of the loop body; return {(state, outcome): trail}."""
    if not names:
        raise AnalysisError("popped deed is not unpacked at %s" % run.site(f, popstmt))
    dom = DeedDomain(deq, names[0])
    it = Interp(dom, run.lat)
    res = it.block(loop.body, {dom.initial(): ()}, None)
    run.paths += len(res)
    return res


def conservation_facts(run, f, what="recur"):
    """C01.R4: per iteration the popped deed has exactly one fate."""
    facts = []
    loops = [x for x in deque_loops(f) if x[3] == "left"]
    for loop, popstmt, deq, end, names in loops:
        res = deed_fates(run, f, loop, popstmt, deq, names)
        for (st, oc), tr in sorted(res.items(), key=lambda kv: str(kv[0])):
            held, marker, app, moved, fin, closed = st
            bad = None
            if not held:
                if is_raise(oc):
                    continue
                bad = "iteration ends without popping a deed"
            elif oc in (NORMAL, CONTINUE):
                fates = app + moved + (1 if fin else 0)
                if marker:
                    if what == "remove":
                        if app != 1 or moved or fin:
                            bad = "marker deed must be re-appended exactly once in remove (appended %d, moved %d)" % (app, moved)
                    else:
                        bad = "marker popped but the once-through loop goes on"
                elif fates != 1:
                    bad = ("deed popped from %s has %d fates in one iteration (re-appended %d, moved %d, finished %s): "
                           "it is lost or duplicated" % (deq, fates, app, moved, fin))
            elif oc == BREAK:
                if not marker:
                    bad = "loop left by break while holding a live deed (re-appended %d)" % app
                elif app or moved:
                    bad = "marker re-appended before break"
            elif oc == RETURN:
                bad = "return while holding a popped deed"
            elif is_raise(oc):
                if app or moved:
                    bad = "deed re-appended on a path that raises %s" % oc[1]
                elif oc[1] == "StopIteration":
                    bad = "StopIteration of a finished dog escapes the loop"
            label = "held=%s,marker=%s,app=%d,moved=%d,fin=%s|%s" % (held, marker, app, moved, fin,
                                                                       oc[0] + (":" + oc[1] if is_raise(oc) else ""))
            facts.append(Fact("conserve:%s:%s" % (what, label), bad is None, bad is None,
                              run.site(f, popstmt), bad or "", tr, 1))
    if not loops:
        facts.append(Fact("conserve:%s:loop-present" % what, False, False, run.site(f),
                          "no loop popping deeds from the left found"))
    return facts


def close_loop_facts(run, f):
    """C01.R3: exit(): every popped deed is the marker or gets dog.close(); loop runs until empty."""
    facts = []
    loops = [x for x in deque_loops(f)]
    if not loops:
        facts.append(Fact("close:loop-present", False, False, run.site(f), "no loop popping deeds found"))
        return facts
    for loop, popstmt, deq, end, names in loops:
        kind = loop_test_is_nonempty(loop, deq)
        facts.append(Fact("close:until-empty", kind, kind == "until-empty", run.site(f, loop),
                          "" if kind == "until-empty" else "close loop does not run until the deque is empty: `%s`" % unparse(loop.test if isinstance(loop, ast.While) else loop.iter)))
        res = deed_fates(run, f, loop, popstmt, deq, names)
        for (st, oc), tr in sorted(res.items(), key=lambda kv: str(kv[0])):
            held, marker, app, moved, fin, closed = st
            bad = None
            if oc in (NORMAL, CONTINUE):
                if held and not marker and not closed:
                    bad = "a live deed is popped and dropped without dog.close()"
                if app or moved:
                    bad = "deed re-appended in the close loop"
            elif oc == BREAK or oc == RETURN:
                # also at the marker: a doer that removed itself keeps its deed but is no longer in .doers, so it ties with the marker in
                # the doers-order sort and is popped after it
                bad = "close loop left early (%s) with deeds possibly remaining" % oc[0]
            elif is_raise(oc) and oc[1] == "StopIteration":
                bad = "StopIteration escapes the close loop"
            label = "marker=%s,closed=%s|%s" % (marker, closed, oc[0] + (":" + oc[1] if is_raise(oc) else ""))
            facts.append(Fact("close:" + label, bad is None, bad is None, run.site(f, popstmt), bad or "", tr, 1))
        if not any(st[5] for (st, oc) in res):
            facts.append(Fact("close:calls-close", False, False, run.site(f, loop), "dog.close() is never called"))
    return facts


# -------------------------------------------------------------- deque ends
def deque_end_facts(run, cls):
    """C02.R1: enter appends right, exit pops right (LIFO); recur pops left / appends right."""
    facts = {}
    ix = run.ix
    enter, recur, exit_ = (ix.method(cls, n) for n in ("enter", "recur", "exit"))
    # enter: the append of the new deed
    ends = set()
    site = run.site(enter)
    for n in walk_local(enter.node):
        mc = method_call(n) if isinstance(n, ast.Call) else None
        if mc and mc[1] in ("append", "appendleft") and n.args and isinstance(n.args[0], ast.Tuple) \
                and len(n.args[0].elts) == 3:
            ends.add("right" if mc[1] == "append" else "left")
            site = run.site(enter, n)
    facts["enter.append-end"] = (tuple(sorted(ends)), site)
    pops = deque_loops(exit_)
    facts["exit.pop-end"] = (tuple(sorted({p[3] for p in pops})), run.site(exit_, pops[0][1]) if pops else run.site(exit_))
    pops = deque_loops(recur)
    facts["recur.pop-end"] = (tuple(sorted({p[3] for p in pops})), run.site(recur, pops[0][1]) if pops else run.site(recur))
    ends = set()
    site = run.site(recur)
    for loop, popstmt, deq, end, names in pops:
        for n in ast.walk(loop):
            mc = method_call(n) if isinstance(n, ast.Call) else None
            if mc and mc[0] == deq and mc[1] in ("append", "appendleft") and n.args and isinstance(n.args[0], ast.Tuple):
                ends.add("right" if mc[1] == "append" else "left")
                site = run.site(recur, n)
    facts["recur.reappend-end"] = (tuple(sorted(ends)), site)
    return facts


# ------------------------------------------------------------ recur facts
class RecurDeps(DepDomain):
    """Dependence sets inside the once-through loop body of recur."""

    def __init__(self, deq, names, tyme_syms):
        super().__init__()
        self.deq, self.names = deq, names
        self.tyme_syms = tyme_syms
        self.appends = []     # (tags, deps per tuple element, node)
        self.sends = []       # (tags, arg deps, node)
        self.due_tests = []   # canonical comparison
        self.tock_tests = []
        self.asap_tests = []  # `retyme is None` marker tests
        self.resolved = []    # stores that resolve the marker to the current tyme

    def unpack_source(self, value, i, n, state):
        if isinstance(value, ast.Call):
            mc = method_call(value)
            if mc and mc[0] == self.deq and mc[1] in ("pop", "popleft"):
                return fs("deed[%d]" % i)
        return None

    def on_store(self, target, value, state, stmt):
        # `if retyme is None: retyme = tyme`: the rerun-asap marker denotes "the tyme of the recur that runs the deed"; resolving it
        # leaves the abstract due tyme unchanged (it now *is* that instant) and is recorded
        if isinstance(target, ast.Name) and ("asap", True) in state[1] and self.env_get(state, target.id) == fs("deed[1]") \
                and isinstance(value, ast.AST) and self.deps(value, state) and self.deps(value, state) <= frozenset(self.tyme_syms):
            self.resolved.append(stmt)
            return self.add_tag(state, ("asap-resolved", True))
        return super().on_store(target, value, state, stmt)

    def call_source(self, call, state):
        mc = method_call(call)
        if mc and mc[1] == "send" and self.deps(call.func.value, state) == fs("deed[0]"):
            return fs("yielded")
        if dotted(call.func) == "next" and call.args and self.deps(call.args[0], state) == fs("deed[0]"):
            return fs("yielded")
        return None

    def probe(self, node, state):
        mc = method_call(node)
        if not mc:
            return
        if mc[1] == "send" and self.deps(node.func.value, state) == fs("deed[0]"):
            self.sends.append((state[1], self.deps(node.args[0], state) if node.args else frozenset(), node))
        if mc[0] == self.deq and mc[1] in ("append", "appendleft") and node.args and isinstance(node.args[0], ast.Tuple):
            elts = node.args[0].elts
            self.appends.append((state[1], tuple(self.deps(e, state) for e in elts), node))

    def raises(self, node, state):
        if isinstance(node, ast.Call):
            mc = method_call(node)
            if mc and mc[1] == "send":
                return ("StopIteration",)
        return ()

    def _is_asap_test(self, test, state):
        """`<retyme> is None` / `is not None` on the popped due tyme: returns the polarity (True for `is None`) or None"""
        if isinstance(test, ast.Compare) and len(test.ops) == 1 and isinstance(test.ops[0], (ast.Is, ast.IsNot)) \
                and isinstance(test.comparators[0], ast.Constant) and test.comparators[0].value is None \
                and self.deps(test.left, state) == fs("deed[1]"):
            return isinstance(test.ops[0], ast.Is)
        return None

    def tag(self, test, truth, state):
        pol = self._is_asap_test(test, state)
        if pol is not None:
            self.asap_tests.append(test)
            return ("asap", truth == pol)
        if isinstance(test, ast.BoolOp) and isinstance(test.op, ast.And) and not truth:
            # not (retyme is not None and not retyme <= tyme)  ==  retyme is None or retyme <= tyme   (De Morgan)
            neg = [v.operand if isinstance(v, ast.UnaryOp) and isinstance(v.op, ast.Not) else ast.UnaryOp(op=ast.Not(), operand=v) for v in test.values]
            flipped = []
            for v in neg:
                if isinstance(v, ast.UnaryOp) and isinstance(v.op, ast.Not) and isinstance(v.operand, ast.Compare) and len(v.operand.ops) == 1 \
                        and isinstance(v.operand.ops[0], (ast.Is, ast.IsNot)):
                    c = v.operand
                    v = ast.Compare(left=c.left, ops=[ast.Is() if isinstance(c.ops[0], ast.IsNot) else ast.IsNot()], comparators=c.comparators)
                flipped.append(v)
            return self.tag(ast.BoolOp(op=ast.Or(), values=flipped), True, state)
        if isinstance(test, ast.BoolOp) and isinstance(test.op, ast.Or) and truth:
            # `retyme is None or retyme <= tyme`: run now when marked rerun-asap or due; which of the two is decided by the
            # marker test that follows (path-sensitive)
            kinds = []
            for v in test.values:
                if self._is_asap_test(v, state) is True:
                    self.asap_tests.append(v)
                    kinds.append("asap")
                elif isinstance(v, ast.Compare):
                    t = self.tag(v, True, state)
                    kinds.append("due" if t == ("due", True) else "?")
                else:
                    kinds.append("?")
            if sorted(kinds) == ["asap", "due"]:
                return ("due", True)
            return None
        if isinstance(test, ast.Compare) and len(test.ops) == 1:
            l, r = self.deps(test.left, state), self.deps(test.comparators[0], state)
            op = type(test.ops[0]).__name__
            flip = {"Lt": "Gt", "LtE": "GtE", "Gt": "Lt", "GtE": "LtE", "Eq": "Eq", "NotEq": "NotEq"}
            if l == fs("deed[1]") and op in flip:
                self.due_tests.append((op, tuple(sorted(r)), test))
                return ("due", truth)
            if r == fs("deed[1]") and op in flip:
                self.due_tests.append((flip[op], tuple(sorted(l)), test))
                return ("due", truth)
        d = self.deps(test, state)
        if d == fs("yielded"):
            if isinstance(test, ast.Name):
                self.tock_tests.append(("truthy", test))
                return ("tock", truth)
            self.tock_tests.append(("other:" + unparse(test), test))
            return ("tock?", truth)
        if d == fs("deed[0]"):
            return ("dog", truth)
        return None


def recur_facts(run, cls):
    """C03.R2-R5 facts for recur of Doist / DoDoer.  Symbol table: TYME is the
    scheduler's current tyme (self.tyme for Doist, the tyme parameter for DoDoer)."""
    ix = run.ix
    f = ix.method(cls, "recur")
    params = f.params()[0]
    tyme_syms = {"tyme"} if "tyme" in params else {"self.tyme"}
    params_tyme = "tyme" in params      # the scheduler is itself scheduled (DoDoer): its period is its parent's
    facts = {}
    loops = [x for x in deque_loops(f) if x[3] == "left"]
    if len(loops) != 1:
        raise AnalysisError("expected one once-through loop in %s, found %d" % (f.fq, len(loops)))
    loop, popstmt, deq, end, names = loops[0]
    site = run.site(f, loop)

    def sym(deps):
        return tuple(sorted("TYME" if d in tyme_syms else d for d in deps))

    # R2 marker appended before the loop, same deque, same end as re-appends
    marker = None
    for st in flat(f.node.body):
        if st is loop:
            break
        for n in ast.walk(st):
            mc = method_call(n) if isinstance(n, ast.Call) else None
            if mc and mc[0] == deq and mc[1] in ("append", "appendleft") and n.args \
                    and isinstance(n.args[0], ast.Tuple) and n.args[0].elts and isinstance(n.args[0].elts[0], ast.Constant) and n.args[0].elts[0].value is None:
                # the marker is whatever deed has no dog (`if not dog` is the only test made of it)
                marker = ("right" if mc[1] == "append" else "left", n)
    facts["recur.marker-before-loop"] = (marker[0] if marker else None, run.site(f, marker[1]) if marker else site)

    dom = RecurDeps(deq, names, tyme_syms)
    it = Interp(dom, run.lat)
    res = it.block(loop.body, {dom.initial(): ()}, None)
    run.paths += len(res)
    # R3 due test
    due = sorted({(op, sym(rhs)) for op, rhs, node in dom.due_tests})
    facts["recur.due-test"] = (tuple(due), run.site(f, dom.due_tests[0][2]) if dom.due_tests else site)
    # R5 send value
    sends = sorted({sym(d) for tags, d, node in dom.sends})
    facts["recur.send-value"] = (tuple(sends), run.site(f, dom.sends[0][2]) if dom.sends else site)
    facts["recur.send-only-when-due"] = (all(("due", True) in tags for tags, d, n in dom.sends) and bool(dom.sends),
                                         run.site(f, dom.sends[0][2]) if dom.sends else site)
    facts["recur.tock-test"] = (tuple(sorted({k for k, n in dom.tock_tests})), site)
    # every send on a path that took the rerun-asap marker has resolved it first (otherwise `None += tock`)
    asap_sends = [tg for tg, d_, n_ in dom.sends if ("asap", True) in tg]
    facts["recur.asap-marker-resolved-before-run"] = (all(("asap-resolved", True) in tg for tg in asap_sends), site)
    # R4 retyme per branch
    by = {}
    for tags, elts, node in dom.appends:
        t = dict(x for x in tags if isinstance(x, tuple) and x[0] in ("due", "tock", "tock?"))
        if t.get("due") is False:
            key = "not-due"
        elif t.get("due") is True and t.get("tock") is True:
            key = "tock-truthy"
        elif t.get("due") is True and t.get("tock") is False:
            key = "tock-falsy"
        else:
            key = "other:" + ",".join("%s=%s" % kv for kv in sorted(t.items()))
        if len(elts) == 3:
            due = sym(elts[1])
            arg = node.args[0].elts[1]
            if key == "tock-falsy":
                # the instant "tyme of the next recur": Doist knows its period (tyme advances by self.tock per cycle, C03.R1), a DoDoer
                # does not know its parent's, so the only sound encoding there is a marker resolved by the recur that runs the deed
                if not params_tyme and due == ("TYME", "self.tock"):
                    due = ("NEXT",)
                elif params_tyme and due == () and dom.resolved and all(("asap-resolved", True) in tg for tg, d_, n_ in dom.sends if ("asap", True) in tg):
                    due = ("NEXT",)
            by.setdefault(key, set()).add((sym(elts[0]), due, sym(elts[2])))
        else:
            by.setdefault(key, set()).add(("arity", len(elts)))
        facts.setdefault("recur.append-site:" + key, (None, run.site(f, node)))
    for key in ("not-due", "tock-truthy", "tock-falsy"):
        vals = by.get(key, set())
        facts["recur.reappend:" + key] = (tuple(sorted(vals)), facts.get("recur.append-site:" + key, (None, site))[1])
    others = sorted(k for k in by if k.startswith("other"))
    facts["recur.reappend:unclassified"] = (tuple(others), site)
    for k in [k for k in facts if k.startswith("recur.append-site:")]:
        del facts[k]
    return facts, tyme_syms


EXPECT_RECUR = {
    "recur.marker-before-loop": "right",
    "recur.due-test": (("LtE", ("TYME",)),),
    "recur.send-value": (("TYME",),),
    "recur.send-only-when-due": True,
    "recur.tock-test": ("truthy",),
    "recur.asap-marker-resolved-before-run": True,
    "recur.reappend:not-due": ((("deed[0]",), ("deed[1]",), ("deed[2]",)),),
    "recur.reappend:tock-truthy": ((("deed[0]",), ("deed[1]", "yielded"), ("deed[2]",)),),
    "recur.reappend:tock-falsy": ((("deed[0]",), ("NEXT",), ("deed[2]",)),),
    "recur.reappend:unclassified": (),
}


# ------------------------------------------------------------- tick facts
class CountDomain(Domain):
    """Counts calls of self.<name>() per path (0,1,2+) and whether inside a loop."""

    def __init__(self, name):
        self.name = name

    def initial(self):
        return 0

    def on_event(self, node, state):
        if isinstance(node, ast.Call) and is_self_call(node, self.name):
            yield min(state + 1, 2), NORMAL
            return
        yield state, NORMAL


def tick_facts(run, cls):
    f = run.ix.method(cls, "recur")
    res = Interp(CountDomain("tick"), run.lat).run(f.node)
    run.paths += len(res)
    counts = sorted({st for (st, oc) in res if oc == RETURN})
    in_loop = any(enclosing(n, (ast.While, ast.For)) is not None for n in walk_local(f.node)
                  if isinstance(n, ast.Call) and is_self_call(n, "tick"))
    # tick after the once-through loop
    order_ok = False
    loops = [x for x in deque_loops(f) if x[3] == "left"]
    if loops:
        loop = loops[0][0]
        after = False
        for st in flat(f.node.body):
            if st is loop:
                after = True
                continue
            if after and any(isinstance(n, ast.Call) and is_self_call(n, "tick") for n in ast.walk(st)):
                order_ok = True
    return {"recur.tick-count": (tuple(counts), run.site(f)), "recur.tick-in-loop": (in_loop, run.site(f)),
            "recur.tick-after-loop": (order_ok, run.site(f))}


# ------------------------------------------------------------ enter facts
def own_selector_forms(f):
    """How enter/recur/exit decide between the deque they are given and the scheduler's own .deeds: the set of test forms that
    guard `<x> = self.deeds` ('is-none' = identity with None on the parameter; anything else, e.g. truthiness, also selects the own
    deque when the caller passes an EMPTY deque, as remove() and extend() do when nothing matches)."""
    forms = set()
    a = f.node.args
    params = {x.arg for x in a.posonlyargs + a.args + a.kwonlyargs}
    ps = f.params()[0]
    first = ps[1] if len(ps) > 1 else "doers"       # enter(doers=None): the own deque goes with the own doers

    def classify(t, pname):
        if isinstance(t, ast.Compare) and len(t.ops) == 1 and dotted(t.left) == pname and isinstance(t.ops[0], (ast.Is, ast.IsNot)) \
                and getattr(t.comparators[0], "value", 0) is None:
            return "is-none"
        return "other:" + unparse(t)
    for n in walk_local(f.node):
        if isinstance(n, ast.If):
            for s in n.body + n.orelse:
                if isinstance(s, ast.Assign) and dotted(s.value) == "self.deeds":
                    tg = dotted(s.targets[0])
                    forms.add(classify(n.test, tg if tg in params else first))
        elif isinstance(n, ast.Assign) and dotted(n.targets[0]) in params:
            v, pname = n.value, dotted(n.targets[0])
            if isinstance(v, ast.IfExp) and "self.deeds" in (dotted(v.body), dotted(v.orelse)):
                forms.add(classify(v.test, pname))
            elif isinstance(v, ast.BoolOp) and any(dotted(x) == "self.deeds" for x in v.values):
                forms.add("other:" + unparse(v))
    return forms


def own_selector_facts(run, cls, meths=("recur", "exit")):
    out = {}
    for meth in meths:
        f = run.ix.method(cls, meth)
        out["%s.own-deeds-selected-by" % meth] = (tuple(sorted(own_selector_forms(f))), run.site(f))
    return out


class EnterDeps(DepDomain):
    def __init__(self):
        super().__init__()
        self.appends = []
        self.creates = []
        self.done_stores = []

    def call_source(self, call, state):
        return None

    def probe(self, node, state):
        mc = method_call(node)
        if mc and mc[1] in ("append", "appendleft") and node.args and isinstance(node.args[0], ast.Tuple) \
                and len(node.args[0].elts) == 3:
            self.appends.append((mc[0], mc[1], tuple(self.deps(e, state) for e in node.args[0].elts), node))

    def raises(self, node, state):
        if isinstance(node, ast.Call):
            mc = method_call(node)
            if (mc and mc[1] == "send") or dotted(node.func) == "next":
                return ("StopIteration",)
        return ()


def enter_facts(run, cls):
    """first due tyme, tymth injection, done=False store, which deque receives."""
    ix = run.ix
    f = ix.method(cls, "enter")
    facts = {}
    dom = EnterDeps()
    res = Interp(dom, run.lat).run(f.node)
    run.paths += len(res)
    retymes = sorted({tuple(sorted(e[1])) for (deq, meth, e, node) in dom.appends})
    facts["enter.first-due"] = (tuple(retymes), run.site(f, dom.appends[0][3]) if dom.appends else run.site(f))
    # the dog creation call: doer(tymth=..., tock=...)
    tymth = set()
    tock = set()
    csite = run.site(f)
    for n in walk_local(f.node):
        if isinstance(n, ast.Call) and isinstance(n.func, ast.Name):
            kws = {k.arg: k.value for k in n.keywords if k.arg}
            if "tymth" in kws:
                tymth.add(keytext(f, kws["tymth"]))
                tock.add(keytext(f, kws.get("tock")) if kws.get("tock") is not None else None)
                csite = run.site(f, n)
    facts["enter.tymth-injected"] = (tuple(sorted(tymth)), csite)
    facts["enter.tock-injected"] = (tuple(sorted(str(t) for t in tock)), csite)
    # advance to first yield, StopIteration handled
    adv = set()
    for n in walk_local(f.node):
        if isinstance(n, ast.Call):
            mc = method_call(n)
            if mc and mc[1] == "send" and n.args and isinstance(n.args[0], ast.Constant) and n.args[0].value is None:
                adv.add("advance")
            elif dotted(n.func) == "next" and len(n.args) == 1:
                adv.add("advance")
    facts["enter.advances-dog"] = (tuple(sorted(adv)), run.site(f))
    # which test selects the scheduler's own doers/deeds: must be identity with None (extend passes a possibly empty list)
    forms = own_selector_forms(f)
    facts["enter.own-deeds-selected-by"] = (tuple(sorted(forms)), run.site(f))
    return facts


# ------------------------------------------------------- done provenance
def done_store_facts(run, f):
    """Every store to <x>.done / <x>.__func__.done (x != self) in f: classify the RHS.
    Returns list of (classification, site, text)."""
    out = []
    for n in walk_local(f.node):
        if isinstance(n, ast.Assign):
            for t in n.targets:
                d = dotted(t)
                if d and d.endswith(".done") and not d.startswith("self."):
                    out.append((classify_done_rhs(n), run.site(f, n), unparse(n)))
    return out


def classify_done_rhs(assign):
    v = assign.value
    if isinstance(v, ast.Constant):
        return "const:%r" % (v.value,)
    # X if X is not None else <doer>.done   with X = ex.value | done (close result)
    if isinstance(v, ast.IfExp):
        body, test, orelse = v.body, v.test, v.orelse
        src = dotted(body)
        keep = dotted(orelse)
        if src and keep and keep.endswith(".done") and isinstance(test, ast.Compare) and dotted(test.left) == src \
                and len(test.ops) == 1 and isinstance(test.ops[0], ast.IsNot) \
                and getattr(test.comparators[0], "value", 0) is None:
            # where does src come from?
            h = enclosing(assign, ast.ExceptHandler)
            while h is not None and not (h.name and src == h.name + ".value"):
                h = enclosing(h, ast.ExceptHandler)
            if h is not None:
                types = dotted(h.type) if h.type is not None else None
                return "from:%s.value" % types
            return "from:" + src
        return "ifexp:" + unparse(v)
    return "expr:" + unparse(v)


def close_result_name(f):
    """name bound to dog.close() in f, or None."""
    for n in walk_local(f.node):
        if isinstance(n, ast.Assign) and isinstance(n.value, ast.Call):
            mc = method_call(n.value)
            if mc and mc[1] == "close" and isinstance(n.targets[0], ast.Name):
                return n.targets[0].id
    return None


# ------------------------------------------------------------------ C02.R3
class EnterSafety(Domain):
    """state = (origin of the receiving deque: None|'attr'|'fresh', appended, handed)"""

    NORAISE = {"deque", "hasattr", "isinstance", "list", "len", "dict"}

    def __init__(self, deq):
        self.deq = deq

    def initial(self):
        return (None, False, False)

    def on_store(self, target, value, state, stmt):
        origin, app, handed = state
        if isinstance(target, ast.Name) and target.id == self.deq:
            if isinstance(value, ast.Call) and dotted(value.func) in ("deque", "collections.deque"):
                return ("fresh", False, False)
            return ("attr", False, False)
        return state

    def on_event(self, node, state):
        origin, app, handed = state
        if isinstance(node, ast.Call):
            mc = method_call(node)
            name = dotted(node.func)
            if mc and mc[0] == self.deq and mc[1] in ("append", "appendleft", "extend"):
                yield (origin, True, handed), NORMAL
                return
            # the local deque handed to something that closes or keeps it
            if any(dotted(a) == self.deq for a in node.args) or any(dotted(k.value) == self.deq for k in node.keywords):
                yield (origin, app, True), NORMAL
                yield (origin, app, True), RAISE("Exception")
                return
            if name in self.NORAISE:
                yield state, NORMAL
                return
            if (mc and mc[1] == "send") or name == "next":
                yield state, NORMAL
                yield state, RAISE("StopIteration")
                yield state, RAISE("Exception")
                return
            yield state, NORMAL
            yield state, RAISE("Exception")
            return
        yield state, NORMAL


def _enter_safety_assume(self, test, truth, state):
    """`deeds is not self.deeds` is decided by the origin of the local deque."""
    origin = state[0]
    t, neg = test, False
    while isinstance(t, ast.UnaryOp) and isinstance(t.op, ast.Not):
        t, neg = t.operand, not neg
    if isinstance(t, ast.Compare) and len(t.ops) == 1 and isinstance(t.ops[0], (ast.Is, ast.IsNot)):
        l, r = dotted(t.left), dotted(t.comparators[0])
        if self.deq in (l, r) and origin is not None and (l or "").startswith("self.") != (r or "").startswith("self."):
            same = origin == "attr"
            val = (same == isinstance(t.ops[0], ast.Is)) != neg
            return state if val == truth else None
    return Domain.assume(self, test, truth, state)


EnterSafety.assume = _enter_safety_assume


def enter_safety_facts(run, f):
    """C02.R3: an exception leaving enter() must not strand doers already entered into a fresh local deque."""
    # name of the deque returned by enter
    deq = None
    for n in walk_local(f.node):
        if isinstance(n, ast.Return) and isinstance(n.value, ast.Name):
            deq = n.value.id
    if deq is None:
        raise AnalysisError("enter() does not return its deque by name: %s" % f.fq)
    res = Interp(EnterSafety(deq), run.lat).run(f.node)
    run.paths += len(res)
    facts = []
    fresh_seen = False
    for (st, oc), tr in sorted(res.items(), key=lambda kv: str(kv[0])):
        origin, app, handed = st
        if origin == "fresh":
            fresh_seen = True
        if not is_raise(oc):
            continue
        bad = None
        if origin == "fresh" and app and not handed:
            bad = ("exception %s leaves enter() while doers already entered by this call sit in the fresh local "
                   "deque `%s`: they are reachable from nowhere and are never exited" % (oc[1], deq))
        facts.append(Fact("enter-safety:origin=%s,entered=%s,handed=%s|raise:%s" % (origin, app, handed, oc[1]),
                          bad is None, bad is None, run.site(f), bad or "", tr, 1))
    if not fresh_seen:
        facts.append(Fact("enter-safety:no-fresh-branch", True, True, run.site(f), ""))
    return facts


# ------------------------------------------------------------------ C02.R5
class MarkerDomain(Domain):
    """state = marker-in-deque bit during recur."""

    def __init__(self, deq, dog):
        self.deq, self.dog = deq, dog

    def initial(self):
        return False

    def on_event(self, node, state):
        if isinstance(node, ast.Call):
            mc = method_call(node)
            if mc and mc[0] == self.deq and mc[1] in ("append", "appendleft") and node.args \
                    and isinstance(node.args[0], ast.Tuple) \
                    and all(isinstance(e, ast.Constant) and e.value is None for e in node.args[0].elts):
                yield True, NORMAL
                return
            if mc and mc[0] == self.dog and mc[1] in ("send", "throw"):
                yield state, NORMAL
                yield state, RAISE("StopIteration")
                yield state, RAISE("Exception")
                return
            if dotted(node.func) == "next":
                yield state, NORMAL
                yield state, RAISE("StopIteration")
                yield state, RAISE("Exception")
                return
        yield state, NORMAL

    def assume(self, test, truth, state):
        t, neg = test, False
        while isinstance(t, ast.UnaryOp) and isinstance(t.op, ast.Not):
            t, neg = t.operand, not neg
        if dotted(t) == self.dog:
            is_dog = truth != neg
            if not is_dog:
                return False        # marker recognised: no longer in the deque
            return state
        return super().assume(test, truth, state)


def rotation_hazard_facts(run, cls):
    ix = run.ix
    recur, exit_ = ix.method(cls, "recur"), ix.method(cls, "exit")
    loops = [x for x in deque_loops(recur) if x[3] == "left"]
    if len(loops) != 1:
        raise AnalysisError("expected one once-through loop in %s" % recur.fq)
    loop, popstmt, deq, end, names = loops[0]
    res = Interp(MarkerDomain(deq, names[0]), run.lat).run(recur.node)
    run.paths += len(res)
    hazards = [(oc, tr) for (st, oc), tr in res.items() if is_raise(oc) and st]
    # does exit use the marker position?
    eloops = deque_loops(exit_)
    reorder = []
    for n in walk_local(exit_.node):
        if isinstance(n, ast.Call):
            mc = method_call(n)
            if mc and mc[1] in ("rotate", "index", "reverse", "sort"):
                reorder.append(n)
            elif dotted(n.func) in ("sorted", "reversed"):
                reorder.append(n)
    plain_skip = False
    for eloop, epop, edeq, eend, enames in eloops:
        for st in eloop.body:
            if isinstance(st, ast.If) and dotted(st.test.operand if isinstance(st.test, ast.UnaryOp) else st.test) == enames[0]:
                if all(isinstance(b, (ast.Continue, ast.Pass)) for b in st.body):
                    plain_skip = True
    facts = []
    marker_rotation = any(isinstance(n, ast.Call) and (method_call(n) or ("", ""))[1] == "rotate" and any(
        isinstance(c, ast.Call) and (method_call(c) or ("", ""))[1] == "index" for c in ast.walk(n)) for n in reorder)
    doers_order = bool(_sorted_by_doers_index(exit_, _doers_index_maps(exit_)))
    ok = (not hazards) or marker_rotation or doers_order or not plain_skip
    what = ""
    trail = None
    if not ok:
        oc, trail = sorted(hazards, key=lambda x: len(x[1]))[0]
        what = ("%s can leave recur() (raise %s) with the once-through marker still in the rotated deque, and exit() "
                "merely skips the marker: doers already run this cycle (entered earlier) are closed before doers not "
                "yet run (entered later) - forced exits are not in reverse enter order" % (recur.qualname, oc[1]))
    facts.append(Fact("rotation-hazard", ok, ok, run.site(exit_), what, trail, len(res)))
    note = None
    if hazards and reorder and not doers_order:
        note = "%s: reordering present in exit() (%s); its correctness is not decided" % (cls.name, unparse(reorder[0]))
    return facts, note


# ------------------------------------------------------------ C05 run loop
def _is_empty_test(test):
    """Return True/False polarity if `test` being true means 'self.deeds is empty' (True) or non-empty (False); else None."""
    t, neg = test, False
    while isinstance(t, ast.UnaryOp) and isinstance(t.op, ast.Not):
        t, neg = t.operand, not neg
    if dotted(t) == "self.deeds":
        return neg                       # `not self.deeds` true => empty
    if isinstance(t, ast.Call) and dotted(t.func) == "len" and t.args and dotted(t.args[0]) == "self.deeds":
        return neg
    if isinstance(t, ast.Compare) and len(t.ops) == 1 and isinstance(t.left, ast.Call) and dotted(t.left.func) == "len" \
            and t.left.args and dotted(t.left.args[0]) == "self.deeds" and getattr(t.comparators[0], "value", None) == 0:
        if isinstance(t.ops[0], ast.Eq):
            return not neg
        if isinstance(t.ops[0], (ast.Gt, ast.NotEq)):
            return neg
    return None


class RunLoopDomain(Domain):
    """state = (done, entered, empty_known, tymer_after_enter, seq, bad)"""
    whole_boolops = True        # the limit test is classified as a whole conjunction

    def __init__(self, tymer_names, timer_names):
        self.tymers = tymer_names
        self.timers = timer_names

    def initial(self):
        return (None, False, False, None, (), frozenset())

    def on_event(self, node, state):
        done, entered, empty, tym, seq, bad = state
        if isinstance(node, ast.Call):
            m = is_self_call(node)
            if m == "enter":
                if done is not False:
                    bad = bad | {"enter-before-done-false"}
                entered = True
            elif m == "recur":
                empty = False
                seq = ("recur",)
            elif m == "exit":
                pass
            cc = dotted(node.func) or ""
            if cc.split(".")[-1] == "Tymer":
                tym = entered
                if seq:
                    bad = bad | {"tymer-built-inside-loop"}
            mc = method_call(node)
            if mc and mc[0] in self.timers and mc[1] in ("restart", "start") and seq:
                seq = seq + ("pace:" + mc[1],)
            if cc.endswith("sleep") and seq:
                if not (seq and seq[-1] == "sleep"):
                    seq = seq + ("sleep",)
        yield (done, entered, empty, tym, seq, bad), NORMAL

    def on_store(self, target, value, state, stmt):
        done, entered, empty, tym, seq, bad = state
        if dotted(target) == "self.done":
            if isinstance(value, ast.Constant):
                if value.value is True and not empty:
                    bad = bad | {"done-true-without-empty-deeds"}
                if value.value is True:
                    seq = seq + ("done=True",)
                done = value.value
            else:
                done = "?"
                bad = bad | {"done-nonconstant"}
        return (done, entered, empty, tym, seq, bad)

    def assume(self, test, truth, state):
        done, entered, empty, tym, seq, bad = state
        if isinstance(test, ast.Constant):
            return state if bool(test.value) == truth else None
        pol = _is_empty_test(test)
        if pol is not None:
            is_empty = (truth == pol)
            seq2 = seq + ("empty?%s" % ("T" if is_empty else "F"),) if seq else seq
            return (done, entered, is_empty, tym, seq2, bad)
        names = {dotted(n) for n in ast.walk(test) if isinstance(n, ast.Attribute)}
        if any(n and n.split(".")[0] in self.tymers and n.endswith(".expired") for n in names):
            shape = "limit-and-expired" if (isinstance(test, ast.BoolOp) and isinstance(test.op, ast.And)
                                             and any(dotted(v) == "self.limit" for v in test.values)) else "other:" + unparse(test)
            if seq:
                seq = seq + ("limit?%s[%s]" % ("T" if truth else "F", shape),)
            return (done, entered, empty, tym, seq, bad)
        t, neg = test, False
        while isinstance(t, ast.UnaryOp) and isinstance(t.op, ast.Not):
            t, neg = t.operand, not neg
        d = dotted(t)
        if d == "self.real" and seq:
            return (done, entered, empty, tym, seq + ("real?%s" % ("T" if truth != neg else "F"),), bad)
        if d and d.endswith(".expired") and d.rsplit(".", 1)[0] in self.timers and seq:
            expired = truth != neg
            lab = "expired?%s" % ("T" if expired else "F")
            if seq[-1] != lab and not (seq[-1] == "sleep" and not expired):
                seq = seq + (lab,)
            return (done, entered, empty, tym, seq, bad)
        return state


def runloop_facts(run, f):
    """Facts about Doist.do / Doist.ado: done/empty discipline, iteration order, limit test, tymer construction."""
    tymers, timers = set(), {"self.timer"}
    tymer_calls = []
    for n in walk_local(f.node):
        if isinstance(n, ast.Assign) and isinstance(n.value, ast.Call) and isinstance(n.targets[0], ast.Name):
            cn = (dotted(n.value.func) or "").split(".")[-1]
            if cn == "Tymer":
                tymers.add(n.targets[0].id)
                tymer_calls.append(n.value)
            elif cn.endswith("Timer"):
                timers.add(n.targets[0].id)
    dom = RunLoopDomain(tymers, timers)
    res = Interp(dom, run.lat).run(f.node)
    run.paths += len(res)
    facts = {}
    bads = set()
    seqs = set()
    tym = set()
    dones = set()
    for (st, oc), tr in res.items():
        done, entered, empty, tymx, seq, bad = st
        bads |= bad
        if entered and seq:
            seqs.add(seq)
        if entered:
            tym.add(tymx)
        if oc == RETURN:
            dones.add((done, empty))
    facts["run.discipline-violations"] = (tuple(sorted(bads)), run.site(f))
    # normalise pacing details out of the order fact (they belong to C07)
    order = set()
    pace = set()
    for seq in seqs:
        order.add(tuple(x for x in seq if not (x.startswith("expired?") or x == "sleep" or x.startswith("pace:") or x.startswith("real?"))))
        pace.add(tuple(x for x in seq if (x.startswith("expired?") or x == "sleep" or x.startswith("pace:") or x == "recur" or x.startswith("real?"))))
    facts["run.iteration-order"] = (tuple(sorted(order)), run.site(f))
    facts["run.pacing"] = (tuple(sorted(pace)), run.site(f))
    facts["run.tymer-built-after-enter"] = (tuple(sorted(tym, key=str)), run.site(f))
    facts["run.return-states"] = (tuple(sorted(dones, key=str)), run.site(f))
    kw = set()
    for c in tymer_calls:
        kw.add(tuple(sorted((k.arg, unparse(k.value)) for k in c.keywords if k.arg)))
    facts["run.tymer-args"] = (tuple(sorted(kw)), run.site(f, tymer_calls[0]) if tymer_calls else run.site(f))
    return facts


EXPECT_RUN = {
    "run.discipline-violations": (),
    "run.iteration-order": (("recur", "empty?F", "limit?T[limit-and-expired]"),
                            ("recur", "empty?T", "done=True")),
    "run.tymer-built-after-enter": (True,),
    "run.return-states": ((False, False), (True, True)),
    "run.tymer-args": ((("duration", "self.limit"), ("tymth", "self.tymen()")),),
}


# ------------------------------------------------------------ C06 facts
def _filter_comp(value, param, member_op):
    """value is `[d for d in <param> if d (not) in self.doers]` -> True"""
    if not isinstance(value, ast.ListComp) or len(value.generators) != 1:
        return False
    g = value.generators[0]
    if dotted(g.iter) != param or not isinstance(g.target, ast.Name) or dotted(value.elt) != g.target.id:
        return False
    for c in g.ifs:
        if isinstance(c, ast.Compare) and len(c.ops) == 1 and isinstance(c.ops[0], member_op) \
                and dotted(c.left) == g.target.id and dotted(c.comparators[0]) == "self.doers":
            return True
    return False


class FilteredDomain(Domain):
    """state: frozenset of local names that currently hold a list filtered against self.doers."""

    def __init__(self, param, op):
        self.param, self.op = param, op
        self.uses = []      # (callee text, arg text, filtered?, node)

    def initial(self):
        return frozenset()

    def on_store(self, target, value, state, stmt):
        if isinstance(target, ast.Name):
            if isinstance(value, ast.AST) and _filter_comp(value, self.param, self.op):
                return state | {target.id}
            if isinstance(value, ast.Name) and value.id in state:
                return state | {target.id}
            return state - {target.id}
        return state

    def on_event(self, node, state):
        if isinstance(node, ast.Call):
            for a in list(node.args) + [k.value for k in node.keywords]:
                if isinstance(a, ast.Name) and (a.id == self.param or a.id in state):
                    self.uses.append((unparse(node.func), a.id, a.id in state, node))
        yield state, NORMAL

    def for_next(self, node, state):
        if isinstance(node.iter, ast.Name) and (node.iter.id == self.param or node.iter.id in state):
            self.uses.append(("for", node.iter.id, node.iter.id in state, node))
        return state, state


def extend_facts(run, cls):
    f = run.ix.method(cls, "extend")
    param = f.params()[0][1]
    dom = FilteredDomain(param, ast.NotIn)
    res = Interp(dom, run.lat).run(f.node)
    run.paths += len(res)
    facts = {}
    uses = {(fn, filt) for fn, arg, filt, node in dom.uses}
    facts["extend.raw-uses-of-argument"] = (tuple(sorted(fn for fn, filt in uses if not filt)), run.site(f))
    facts["extend.enters-filtered"] = (("self.enter", True) in uses, run.site(f))
    facts["extend.appends-filtered-to-doers"] = (("self.doers.extend", True) in uses, run.site(f))
    join = set()
    for n in walk_local(f.node):
        mc = method_call(n) if isinstance(n, ast.Call) else None
        if mc and mc[0] == "self.deeds":
            join.add(mc[1])
    facts["extend.deeds-join"] = (tuple(sorted(join)), run.site(f))
    return facts


EXPECT_EXTEND = {
    "extend.raw-uses-of-argument": (),
    "extend.enters-filtered": True,
    "extend.appends-filtered-to-doers": True,
    "extend.deeds-join": ("extend",),
}


def remove_facts(run, cls):
    f = run.ix.method(cls, "remove")
    param = f.params()[0][1]
    dom = FilteredDomain(param, ast.In)
    res = Interp(dom, run.lat).run(f.node)
    run.paths += len(res)
    facts = {}
    facts["remove.raw-uses-of-argument"] = (tuple(sorted({fn for fn, arg, filt, node in dom.uses if not filt})), run.site(f))
    loops = deque_loops(f)
    facts["remove.rotation-loop"] = (tuple(sorted({str(loop_test_is_nonempty(l[0], l[2])) for l in loops})), run.site(f))
    facts["remove.rotates-self-deeds"] = (tuple(sorted({_origin_of(f, l[2]) for l in loops})), run.site(f))
    # membership test in the loop uses the filtered list; self.doers.remove for each filtered doer
    member = set()
    for loop, popstmt, deq, end, names in loops:
        for n in ast.walk(loop):
            if isinstance(n, ast.Compare) and len(n.ops) == 1 and isinstance(n.ops[0], ast.In) \
                    and len(names) == 3 and dotted(n.left) == names[2]:
                member.add(dotted(n.comparators[0]))
    filt = {t.id for n in walk_local(f.node) if isinstance(n, ast.Assign) and _filter_comp(n.value, param, ast.In)
            for t in n.targets if isinstance(t, ast.Name)}
    facts["remove.membership-uses-filtered"] = (bool(member) and member <= filt, run.site(f))
    rm = set()
    for n in walk_local(f.node):
        if isinstance(n, ast.For) and isinstance(n.iter, ast.Name) and n.iter.id in filt:
            for c in ast.walk(n):
                mc = method_call(c) if isinstance(c, ast.Call) else None
                if mc and mc[0] == "self.doers" and mc[1] == "remove" and c.args and dotted(c.args[0]) == dotted(n.target):
                    # the registry update must not depend on whether a live deed was found: a completed doer (no deed left) that
                    # stays in .doers is skipped by a later extend() and never runs again
                    conds = [keytext(f, a.test) for a in ancestors(n) if isinstance(a, (ast.If, ast.While))]
                    rm.add("remove-each" + "".join("[if %s]" % t for t in conds))
    facts["remove.updates-doers"] = (tuple(sorted(rm)), run.site(f))
    return facts


def _origin_of(f, name):
    for n in walk_local(f.node):
        if isinstance(n, ast.Assign) and any(isinstance(t, ast.Name) and t.id == name for t in n.targets):
            return unparse(n.value)
    return name


EXPECT_REMOVE = {
    "remove.raw-uses-of-argument": (),
    "remove.rotation-loop": ("len-times",),
    "remove.rotates-self-deeds": ("self.deeds",),
    "remove.membership-uses-filtered": True,
    "remove.updates-doers": ("remove-each",),
}

MUTATORS = {"append", "extend", "insert", "remove", "pop", "clear", "sort", "reverse", "__setitem__", "__delitem__", "__iadd__"}


def doers_writers(run):
    """All writers of `self.doers` / `self._doers` in Doist, DoDoer and their subclasses repo-wide: {(class, method)}"""
    ix = run.ix
    roots = [ix.cls(MOD, "Doist"), ix.cls(MOD, "DoDoer")]
    out = {}
    for c in ix.classes.values():
        if not any(r in c.mro for r in roots):
            continue
        for name, f in list(c.methods.items()) + [(k + "@setter", v) for k, v in c.setters.items()]:
            for n in walk_local(f.node):
                hit = None
                if isinstance(n, (ast.Assign, ast.AugAssign, ast.AnnAssign)):
                    tg = n.targets if isinstance(n, ast.Assign) else [n.target]
                    for t in tg:
                        base = t.value if isinstance(t, ast.Subscript) else t
                        if dotted(base) in ("self.doers", "self._doers"):
                            hit = n
                elif isinstance(n, ast.Delete):
                    for t in n.targets:
                        base = t.value if isinstance(t, ast.Subscript) else t
                        if dotted(base) in ("self.doers", "self._doers"):
                            hit = n
                elif isinstance(n, ast.Call):
                    mc = method_call(n)
                    if mc and mc[0] in ("self.doers", "self._doers") and mc[1] in MUTATORS:
                        hit = n
                if hit is not None:
                    out.setdefault((c.fq, name), []).append((f, hit))
    return out


# --------------------------------------------------- sibling fact bundles
def scheduler_fact_bundle(run, cls):
    """All scheduling facts of one scheduler class, keyed by class-independent names.
    Correspondence table applied: TYME (self.tyme <-> tyme parameter) inside recur facts;
    tymth injection `self.tymen()` <-> `self.tymth` normalised to 'own-tymth'."""
    ix = run.ix
    out = {}
    rf, _ = recur_facts(run, cls)
    out.update({k: v for k, v in rf.items()})
    out.update(deque_end_facts(run, cls))
    ef = enter_facts(run, cls)
    v, site = ef["enter.tymth-injected"]
    ef["enter.tymth-injected"] = (tuple("own-tymth" if x in ("self.tymen()", "self.tymth") else x for x in v), site)
    out.update(ef)
    out.update(extend_facts(run, cls))
    out.update(extend_atomic_facts(run, cls))
    out.update(remove_facts(run, cls))
    out.update(own_selector_facts(run, cls))
    for meth, what in (("recur", "recur"), ("remove", "remove")):
        f = ix.method(cls, meth)
        fs_ = conservation_facts(run, f, what)
        # siblings are compared on what can happen to a popped deed (fate and verdict), not on which statement kinds lead there
        out["conserve.%s" % what] = (tuple(sorted({(x.name.split("|")[0], x.ok) for x in fs_})), run.site(f))
    f = ix.method(cls, "exit")
    out["close-loop"] = (tuple(sorted((x.name, x.ok) for x in close_loop_facts(run, f))), run.site(f))
    f = ix.method(cls, "enter")
    out["enter-safety"] = (tuple(sorted((x.name, x.ok) for x in enter_safety_facts(run, f))), run.site(f))
    hz, _ = rotation_hazard_facts(run, cls)
    out["rotation-hazard"] = (tuple((x.name, x.ok) for x in hz), hz[0].site)
    for meth in ("enter", "recur", "exit"):
        f = ix.method(cls, meth)
        cn = close_result_name(f)
        kinds = sorted(("from:<close-result>" if (cn and k == "from:" + cn) else k,
                        "X." + t.split(" = ")[0].replace("__func__.", "F.").split(".", 1)[1])
                       for k, s, t in done_store_facts(run, f))
        out["done-stores.%s" % meth] = (tuple(kinds), run.site(f))
    return out


# --------------------------------------------------------------- C07 facts
def pacing_facts(run, f):
    """Facts about the real-time pacing of Doist.do / ado."""
    import re
    facts = {}
    rf = runloop_facts(run, f)
    seqs, site = rf["run.pacing"]
    bad = []
    real_seen = False
    for seq in seqs:
        s = " ".join(seq)
        if "real?T" in seq:
            real_seen = True
            if not re.fullmatch(r"recur real\?T( expired\?F sleep)* expired\?T pace:restart", s):
                bad.append(s)
        elif "real?F" in seq:
            if not re.fullmatch(r"recur real\?F( sleep)?", s):
                bad.append(s)
        else:
            if s != "recur":
                bad.append(s)
    facts["pace.paths-wellformed"] = (tuple(bad) == () and real_seen, site, "offending per-cycle sequences: %s" % (bad or "real-time branch not found"))
    # the timer object of the wait loop, its sleep argument and its arming before the loop
    timer = None
    wait = None
    for n in walk_local(f.node):
        if isinstance(n, ast.While):
            t, neg = n.test, False
            while isinstance(t, ast.UnaryOp) and isinstance(t.op, ast.Not):
                t, neg = t.operand, not neg
            d = dotted(t)
            if d and d.endswith(".expired") and neg:
                timer, wait = d.rsplit(".", 1)[0], n
    facts["pace.wait-loop"] = (timer is not None, run.site(f, wait) if wait is not None else run.site(f), "no `while not <timer>.expired` loop")
    if timer is None:
        return facts
    clamp = False
    txt = None
    for n in ast.walk(wait):
        if isinstance(n, ast.Call) and (dotted(n.func) or "").endswith("sleep") and n.args:
            a = n.args[0]
            if isinstance(a, ast.Name):     # through a local
                for m in ast.walk(wait):
                    if isinstance(m, ast.Assign) and isinstance(m.targets[0], ast.Name) and m.targets[0].id == a.id:
                        a = m.value
            txt = unparse(a)
            if isinstance(a, ast.Call) and dotted(a.func) == "max" and len(a.args) == 2:
                consts = [x for x in a.args if isinstance(x, ast.Constant) and isinstance(x.value, (int, float)) and x.value >= 0]
                rem = [x for x in a.args if dotted(x) == timer + ".remaining"]
                clamp = bool(consts) and bool(rem)
    facts["pace.sleep-remaining-clamped"] = (clamp, run.site(f, wait), "sleep argument is `%s`, expected max(0, %s.remaining)" % (txt, timer))
    # arming: before the outer loop, duration defined from self.tock in this call
    armed = []
    for n in walk_local(f.node):
        if isinstance(n, ast.Call):
            mc = method_call(n)
            if mc and mc[0] == timer and mc[1] == "start":
                d = kwarg_(n, "duration") or (n.args[0] if n.args else None)
                armed.append(("start", unparse(d) if d is not None else None, n))
        if isinstance(n, ast.Assign) and dotted(n.targets[0]) == timer and isinstance(n.value, ast.Call):
            d = kwarg_(n.value, "duration") or (n.value.args[0] if n.value.args else None)
            armed.append(("construct", unparse(d) if d is not None else None, n))
    # the effective duration: last arming with a duration argument wins; start() without one keeps the old one
    prov = None
    for kind, d, node in sorted(armed, key=lambda x: x[2].lineno):
        if d is not None:
            prov = d
    starts = [a for a in armed if a[0] == "start"]
    facts["pace.timer-started-before-loop"] = (bool(starts), run.site(f, starts[0][2]) if starts else run.site(f), "the pacing timer is never (re)started in this run")
    facts["pace.duration-from-current-tock"] = (prov == "self.tock", run.site(f, armed[0][2]) if armed else run.site(f),
                                                "the pacing timer's duration is %s in this run, expected self.tock read when the run starts "
                                                "(a tock changed after construction is ignored)" % ("taken from `%s`" % prov if prov else "whatever it was given at construction"))
    return facts


def kwarg_(call, name):
    for k in call.keywords:
        if k.arg == name:
            return k.value
    return None


# ------------------------------------------------------------ C06 atomic extend
class ExtendAtomic(Domain):
    """state = membership (self.doers) already changed"""

    def initial(self):
        return False

    def on_event(self, node, state):
        if isinstance(node, ast.Call):
            mc = method_call(node)
            if mc and mc[0] == "self.doers" and mc[1] in MUTATORS:
                yield True, NORMAL
                return
            if is_self_call(node, "enter"):
                yield state, NORMAL
                yield state, RAISE("Exception")
                return
        yield state, NORMAL


def extend_atomic_facts(run, cls):
    f = run.ix.method(cls, "extend")
    res = Interp(ExtendAtomic(), run.lat).run(f.node)
    run.paths += len(res)
    bad = [tr for (st, oc), tr in res.items() if is_raise(oc) and st]
    return {"extend.failed-enter-leaves-doers-unchanged": (not bad, run.site(f))}


# ------------------------------------------------------------ C02.R6 close order source
def _doers_index_maps(f):
    """locals bound to a map from doer (identity) to its position in self.doers: {id(d): i for i, d in enumerate(self.doers)}"""
    out = set()
    for n in walk_local(f.node):
        if isinstance(n, ast.Assign) and isinstance(n.targets[0], ast.Name) and isinstance(n.value, ast.DictComp) and len(n.value.generators) == 1:
            g = n.value.generators[0]
            if isinstance(g.iter, ast.Call) and dotted(g.iter.func) == "enumerate" and g.iter.args and dotted(g.iter.args[0]) == "self.doers" \
                    and isinstance(g.target, ast.Tuple) and len(g.target.elts) == 2 and all(isinstance(e, ast.Name) for e in g.target.elts):
                i, d = (e.id for e in g.target.elts)
                key_ok = dotted(n.value.key) == d or (isinstance(n.value.key, ast.Call) and dotted(n.value.key.func) == "id"
                                                      and n.value.key.args and dotted(n.value.key.args[0]) == d)
                if key_ok and dotted(n.value.value) == i:
                    out.add(n.targets[0].id)
    return out


def _sorted_by_doers_index(f, maps):
    """[(assign node, target name, source name)] for `T = [deque(]sorted(S, key=lambda deed: M[...deed[2]...])[)]` with M a doers-index map"""
    hits = []
    for n in walk_local(f.node):
        if not (isinstance(n, ast.Assign) and isinstance(n.targets[0], ast.Name)):
            continue
        for c in ast.walk(n.value):
            if isinstance(c, ast.Call) and dotted(c.func) == "sorted" and c.args:
                key = kwarg_(c, "key")
                if isinstance(key, ast.Lambda) and not kwarg_(c, "reverse"):
                    used = {x.id for x in ast.walk(key.body) if isinstance(x, ast.Name)}
                    third = any(isinstance(x, ast.Subscript) and getattr(x.slice, "value", None) == 2 and dotted(x.value) == key.args.args[0].arg
                                for x in ast.walk(key.body))
                    if used & maps and third:
                        hits.append((n, n.targets[0].id, dotted(c.args[0])))
    return hits


def close_order_facts(run, cls):
    """The deque is not in enter order in general: extend() called from inside a recur appends the new deeds behind the marker, and the
    deeds not yet run in that recur are re-appended behind them (facts of C02.R1/C03.R2); `.doers` is kept in insertion = enter order
    (C06).  So exit() and remove() must take the close order from the position of each deed's doer in self.doers, and close from the
    right."""
    ix = run.ix
    facts = []
    ex = ix.method(cls, "exit")
    maps = _doers_index_maps(ex)
    hits = _sorted_by_doers_index(ex, maps)
    loops = deque_loops(ex)
    ok, why = False, ""
    if not maps or not hits:
        rev = any(isinstance(n, ast.For) and isinstance(n.iter, ast.Call) and dotted(n.iter.func) == "reversed" and n.iter.args
                  and dotted(n.iter.args[0]) == "self.doers" for n in walk_local(ex.node))
        ok = rev
        why = ("%s.exit closes the deeds in the order they sit in the deque; after extend() from inside a recur the new deeds sit before the deeds "
               "not yet run in that recur, so still-alive doers are force exited out of reverse enter order (enter a,b,c,x exits c,b,x,a); "
               "the close order must come from self.doers" % cls.name)
    else:
        node, tgt, src = hits[0]
        # the sorted order must be what the close loop pops: written back into the deque (clear + extend) or the loop pops the target
        wrote_back = any(isinstance(c, ast.Call) and (method_call(c) or ("", ""))[1] == "extend" and c.args and dotted(c.args[0]) == tgt
                         and method_call(c)[0] == src for c in walk_local(ex.node))
        cleared = any(isinstance(c, ast.Call) and method_call(c) == (src, "clear") for c in walk_local(ex.node))
        pops = {l[2] for l in loops}
        before = all(node.lineno < l[0].lineno for l in loops) and bool(loops)
        ok = before and ((wrote_back and cleared and src in pops) or tgt in pops)
        why = "" if ok else "%s.exit sorts the deeds by position in self.doers but the close loop does not pop that order" % cls.name
    facts.append(("exit.closes-in-doers-order", ok, run.site(ex), "" if ok else why))
    rm = ix.method(cls, "remove")
    maps = _doers_index_maps(rm)
    hits = _sorted_by_doers_index(rm, maps)
    exits = [n for n in walk_local(rm.node) if isinstance(n, ast.Call) and is_self_call(n, "exit")]
    def unwrap(e):
        while isinstance(e, ast.Call) and dotted(e.func) in ("deque", "list", "tuple") and len(e.args) == 1:
            e = e.args[0]
        return e
    passed = {dotted(unwrap(kwarg_(n, "deeds") or (n.args[0] if n.args else None))) for n in exits}
    dels = [n for n in walk_local(rm.node) if isinstance(n, ast.Call) and method_call(n) == ("self.doers", "remove")]
    ok = bool(hits) and hits[0][1] in passed and all(hits[0][0].lineno < d.lineno for d in dels) and bool(dels)
    facts.append(("remove.closes-in-doers-order", ok, run.site(rm, hits[0][0]) if hits else run.site(rm),
                  "" if ok else "%s.remove hands exit() the removed deeds in the order they sat in the deque (rotated by the once-through marker when "
                  "called from inside a recur): removing a and e from c's recur closes a before e; order them by position in self.doers "
                  "before the doers are deleted from it" % cls.name))
    return facts
