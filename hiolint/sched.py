"""Scheduler facts shared by C01-C06 and C30 (hio.base.doing).

Every extractor returns a list of Fact(name, value, ok, site, what, trail, paths);
facts are *values computed from the code* (typestate verdicts, deque ends,
canonical comparisons, dependence sets) so that the sibling checks C04/C30 can
compare them across Doist / DoDoer and do / ado without comparing text.
"""
import ast

from .absint import Domain, Interp, NORMAL, RETURN, BREAK, CONTINUE, RAISE, is_raise
from .astutil import is_self_call, method_call, unparse, enclosing, parent, assigned_names
from .deps import DepDomain, fs
from .index import dotted, walk_local
from .loader import AnalysisError

MOD = "hio.base.doing"
LIFE = ("enter", "recur", "clean", "cease", "abort", "exit")
ENDERS = ("clean", "cease", "abort")


class Fact:
    def __init__(self, name, value, ok, site, what="", trail=None, paths=0):
        self.name, self.value, self.ok, self.site, self.what = name, value, ok, site, what
        self.trail, self.paths = trail, paths


# ------------------------------------------------------------------ C01.R1
class LifecycleDomain(Domain):
    """state = (seq of lifecycle labels with recur collapsed, cause)"""

    def initial(self):
        return ((), None)

    def _push(self, state, label):
        seq, cause = state
        if label == "recur" and seq and seq[-1] == "recur":
            return state
        if len(seq) >= 10:
            return (seq[:9] + ("overflow",), cause)
        return (seq + (label,), cause)

    def on_event(self, node, state):
        if isinstance(node, ast.Call):
            m = is_self_call(node)
            if m in LIFE:
                state = self._push(state, m)
                yield state, NORMAL
                # a `yield from self.recur()` creates the generator here: nothing raises yet
                if not isinstance(parent(node), ast.YieldFrom):
                    yield state, RAISE("Exception")
                return
            yield state, NORMAL
            yield state, RAISE("Exception")
            return
        if isinstance(node, (ast.Yield, ast.YieldFrom)):
            yield state, NORMAL
            yield state, RAISE("GeneratorExit")
            yield state, RAISE("Exception")
            return
        yield state, NORMAL

    def on_store(self, target, value, state, stmt):
        return state

    def on_handler(self, handler, kind, state):
        return (state[0], kind)


def lifecycle_verdict(seq, cause, oc):
    """None if well-formed, else reason."""
    seq = tuple(x for x in seq)
    if "overflow" in seq:
        return "lifecycle calls repeat unboundedly: %s" % (seq,)
    if "enter" not in seq:
        if seq in ((), ("abort", "exit")):
            return None
        return "lifecycle calls %s without enter" % (seq,)
    i = seq.index("enter")
    if seq[:i]:
        return "lifecycle call %s before enter" % (seq[:i],)
    rest = list(seq[i + 1:])
    while rest and rest[0] == "recur":
        rest.pop(0)
    if len(rest) != 2 or rest[0] not in ENDERS or rest[1] != "exit":
        return "after enter/recur the calls are %s, expected exactly one of clean/cease/abort then exit" % (tuple(rest),)
    ender = rest[0]
    if cause is None:
        if ender != "clean":
            return "no exception caught but ender is %s" % ender
    elif cause == "GeneratorExit":
        if ender != "cease":
            return "GeneratorExit (forced close) handled by %s, expected cease" % ender
        if is_raise(oc) and oc[1] == "GeneratorExit":
            return None
    else:
        if ender != "abort":
            return "exception %s handled by %s, expected abort" % (cause, ender)
        if not is_raise(oc):
            return "exception %s swallowed: generator returns after abort" % cause
    return None


def lifecycle_facts(run, f):
    dom = LifecycleDomain()
    res = Interp(dom, run.lat).run(f.node)
    run.paths += len(res)
    facts = []
    classes = {}
    for (st, oc), tr in sorted(res.items(), key=lambda kv: (str(kv[0]), kv[1])):
        seq, cause = st
        bad = lifecycle_verdict(seq, cause, oc)
        label = "%s|cause=%s|%s" % ("-".join(seq) or "none", cause, oc[0] + (":" + oc[1] if is_raise(oc) else ""))
        classes[label] = (bad, tr)
    for label, (bad, tr) in classes.items():
        facts.append(Fact("lifecycle:" + label, bad is None, bad is None, run.site(f), bad or "", tr, 1))
    # the generator must reach exit at all (vacuity guard)
    if not any("exit" in st[0] for (st, oc) in res):
        facts.append(Fact("lifecycle:reaches-exit", False, False, run.site(f), "no path calls self.exit()"))
    return facts


# ------------------------------------------------------------------ C01.R2
class BracketDomain(Domain):
    """state = (entered, exits, after) for Doist.do/ado: every outcome after
    self.enter() passes self.exit() exactly once and last."""

    KINDS = ("Exception", "KeyboardInterrupt", "SystemExit")

    def initial(self):
        return (False, 0, False)

    def on_event(self, node, state):
        entered, exits, after = state
        if isinstance(node, ast.Call):
            m = is_self_call(node)
            if m == "enter":
                state = (True, exits, after or exits > 0)
            elif m == "exit":
                state = (entered, min(exits + 1, 2), after)
            elif m in ("recur",):
                state = (entered, exits, after or exits > 0)
            yield state, NORMAL
            for k in self.KINDS:
                yield state, RAISE(k)
            return
        if isinstance(node, ast.Await):
            yield state, NORMAL
            for k in self.KINDS + ("CancelledError",):
                yield state, RAISE(k)
            return
        yield state, NORMAL


def bracket_facts(run, f):
    res = Interp(BracketDomain(), run.lat).run(f.node)
    run.paths += len(res)
    facts = []
    seen_enter = False
    for (st, oc), tr in sorted(res.items(), key=lambda kv: str(kv[0])):
        entered, exits, after = st
        if not entered:
            continue
        seen_enter = True
        bad = None
        if exits != 1:
            bad = "self.exit() called %s times on outcome %s after self.enter()" % (exits if exits < 2 else "2+", oc)
        elif after:
            bad = "self.enter()/self.recur() called after self.exit() on outcome %s" % (oc,)
        label = "%s" % (oc[0] + (":" + oc[1] if is_raise(oc) else ""))
        facts.append(Fact("bracket:" + label + ":exits=%d" % exits, bad is None, bad is None, run.site(f), bad or "", tr, 1))
    if not seen_enter:
        facts.append(Fact("bracket:enter-present", False, False, run.site(f), "self.enter() is never called"))
    return facts


# ---------------------------------------------------- loops over the deque
def deque_loops(f):
    """Loops in f whose body pops a deed: returns list of (loop, popcall, deqname, end, targets)."""
    out = []
    for loop in [n for n in walk_local(f.node) if isinstance(n, (ast.While, ast.For))]:
        for st in loop.body:
            if isinstance(st, ast.Assign) and isinstance(st.value, ast.Call):
                mc = method_call(st.value)
                if mc and mc[1] in ("pop", "popleft") and mc[0] and not st.value.args:
                    out.append((loop, st, mc[0], "left" if mc[1] == "popleft" else "right",
                                assigned_names(st.targets[0])))
    return out


def loop_test_is_nonempty(loop, deq):
    """`while deeds` / `while len(deeds)` / `while len(deeds) > 0` / for _ in range(len(deeds))"""
    if isinstance(loop, ast.While):
        t = loop.test
        if isinstance(t, ast.Name) and t.id == deq:
            return "until-empty"
        if isinstance(t, ast.Call) and dotted(t.func) == "len" and dotted(t.args[0]) == deq:
            return "until-empty"
        if isinstance(t, ast.Compare) and isinstance(t.left, ast.Call) and dotted(t.left.func) == "len" \
                and dotted(t.left.args[0]) == deq and len(t.ops) == 1 \
                and isinstance(t.ops[0], (ast.Gt, ast.NotEq)) and getattr(t.comparators[0], "value", None) == 0:
            return "until-empty"
        return None
    if isinstance(loop, ast.For):
        it = loop.iter
        if isinstance(it, ast.Call) and dotted(it.func) == "range" and len(it.args) == 1 \
                and isinstance(it.args[0], ast.Call) and dotted(it.args[0].func) == "len" \
                and dotted(it.args[0].args[0]) == deq:
            return "len-times"
    return None


class DeedDomain(Domain):
    """Fate of the deed popped in one loop iteration.
    state = (held, marker, appended, moved, finished, closed)"""

    def __init__(self, deq, dogvar, raise_calls=True):
        self.deq, self.dog = deq, dogvar
        self.raise_calls = raise_calls

    def initial(self):
        return (False, None, 0, 0, False, False)

    def on_event(self, node, state):
        held, marker, app, moved, fin, closed = state
        if isinstance(node, ast.Call):
            mc = method_call(node)
            if mc:
                recv, meth = mc
                if recv == self.deq and meth in ("pop", "popleft") and not node.args:
                    yield (True, None, 0, 0, False, False), NORMAL
                    yield state, RAISE("IndexError")
                    return
                if meth in ("append", "appendleft") and node.args and isinstance(node.args[0], ast.Tuple) \
                        and node.args[0].elts and dotted(node.args[0].elts[0]) == self.dog:
                    if recv == self.deq:
                        yield (held, marker, min(app + 1, 2), moved, fin, closed), NORMAL
                    else:
                        yield (held, marker, app, min(moved + 1, 2), fin, closed), NORMAL
                    return
                if recv == self.dog and meth == "close":
                    yield (held, marker, app, moved, fin, True), NORMAL
                    yield (held, marker, app, moved, fin, True), RAISE("Exception")
                    return
                if recv == self.dog and meth in ("send", "throw", "__next__"):
                    yield state, NORMAL
                    yield state, RAISE("StopIteration")
                    yield state, RAISE("Exception")
                    return
            if dotted(node.func) == "next" and node.args and dotted(node.args[0]) == self.dog:
                yield state, NORMAL
                yield state, RAISE("StopIteration")
                yield state, RAISE("Exception")
                return
            yield state, NORMAL
            return
        yield state, NORMAL

    def on_store(self, target, value, state, stmt):
        # attribute stores on the doer may raise AttributeError (bound method doers): the
        # repo guards them with try/except AttributeError; model the raise so both arms run
        return state

    def on_handler(self, handler, kind, state):
        held, marker, app, moved, fin, closed = state
        if kind == "StopIteration":
            return (held, marker, app, moved, True, closed)
        return state

    def assume(self, test, truth, state):
        held, marker, app, moved, fin, closed = state
        t, neg = test, False
        while isinstance(t, ast.UnaryOp) and isinstance(t.op, ast.Not):
            t, neg = t.operand, not neg
        if dotted(t) == self.dog:
            is_dog = truth != neg            # truthiness of dog
            if marker is not None and marker == is_dog:
                return None
            return (held, not is_dog, app, moved, fin, closed)
        if isinstance(t, ast.Compare) and dotted(t.left) == self.dog and len(t.ops) == 1 \
                and isinstance(t.ops[0], (ast.Is, ast.IsNot)) and getattr(t.comparators[0], "value", 0) is None:
            is_none = (truth != neg) == isinstance(t.ops[0], ast.Is)
            if marker is not None and marker != is_none:
                return None
            return (held, is_none, app, moved, fin, closed)
        return super().assume(test, truth, state)


class StoreRaises(DeedDomain):
    """Same, but `doer.done = ...` may raise AttributeError (so the except arms are explored)."""

    def after_stmt(self, stmt, state):
        return state


def deed_fates(run, f, loop, popstmt, deq, names):
    """Run one iteration of the loop body; return {(state, outcome): trail}."""
    if not names:
        raise AnalysisError("popped deed is not unpacked at %s" % run.site(f, popstmt))
    dom = DeedDomain(deq, names[0])
    it = Interp(dom, run.lat)
    res = it.block(loop.body, {dom.initial(): ()}, None)
    run.paths += len(res)
    return res


def conservation_facts(run, f, what="recur"):
    """C01.R4: per iteration the popped deed has exactly one fate."""
    facts = []
    loops = [x for x in deque_loops(f) if x[3] == "left"]
    for loop, popstmt, deq, end, names in loops:
        res = deed_fates(run, f, loop, popstmt, deq, names)
        for (st, oc), tr in sorted(res.items(), key=lambda kv: str(kv[0])):
            held, marker, app, moved, fin, closed = st
            bad = None
            if not held:
                if is_raise(oc):
                    continue
                bad = "iteration ends without popping a deed"
            elif oc in (NORMAL, CONTINUE):
                fates = app + moved + (1 if fin else 0)
                if marker:
                    if what == "remove":
                        if app != 1 or moved or fin:
                            bad = "marker deed must be re-appended exactly once in remove (appended %d, moved %d)" % (app, moved)
                    else:
                        bad = "marker popped but the once-through loop goes on"
                elif fates != 1:
                    bad = ("deed popped from %s has %d fates in one iteration (re-appended %d, moved %d, finished %s): "
                           "it is lost or duplicated" % (deq, fates, app, moved, fin))
            elif oc == BREAK:
                if not marker:
                    bad = "loop left by break while holding a live deed (re-appended %d)" % app
                elif app or moved:
                    bad = "marker re-appended before break"
            elif oc == RETURN:
                bad = "return while holding a popped deed"
            elif is_raise(oc):
                if app or moved:
                    bad = "deed re-appended on a path that raises %s" % oc[1]
                elif oc[1] == "StopIteration":
                    bad = "StopIteration of a finished dog escapes the loop"
            label = "held=%s,marker=%s,app=%d,moved=%d,fin=%s|%s" % (held, marker, app, moved, fin,
                                                                       oc[0] + (":" + oc[1] if is_raise(oc) else ""))
            facts.append(Fact("conserve:%s:%s" % (what, label), bad is None, bad is None,
                              run.site(f, popstmt), bad or "", tr, 1))
    if not loops:
        facts.append(Fact("conserve:%s:loop-present" % what, False, False, run.site(f),
                          "no loop popping deeds from the left found"))
    return facts


def close_loop_facts(run, f):
    """C01.R3: exit(): every popped deed is the marker or gets dog.close(); loop runs until empty."""
    facts = []
    loops = [x for x in deque_loops(f)]
    if not loops:
        facts.append(Fact("close:loop-present", False, False, run.site(f), "no loop popping deeds found"))
        return facts
    for loop, popstmt, deq, end, names in loops:
        kind = loop_test_is_nonempty(loop, deq)
        facts.append(Fact("close:until-empty", kind, kind == "until-empty", run.site(f, loop),
                          "" if kind == "until-empty" else "close loop does not run until the deque is empty: `%s`" % unparse(loop.test if isinstance(loop, ast.While) else loop.iter)))
        res = deed_fates(run, f, loop, popstmt, deq, names)
        for (st, oc), tr in sorted(res.items(), key=lambda kv: str(kv[0])):
            held, marker, app, moved, fin, closed = st
            bad = None
            if oc in (NORMAL, CONTINUE):
                if held and not marker and not closed:
                    bad = "a live deed is popped and dropped without dog.close()"
                if app or moved:
                    bad = "deed re-appended in the close loop"
            elif oc == BREAK or oc == RETURN:
                bad = "close loop left early (%s) with deeds possibly remaining" % oc[0]
            elif is_raise(oc) and oc[1] == "StopIteration":
                bad = "StopIteration escapes the close loop"
            label = "marker=%s,closed=%s|%s" % (marker, closed, oc[0] + (":" + oc[1] if is_raise(oc) else ""))
            facts.append(Fact("close:" + label, bad is None, bad is None, run.site(f, popstmt), bad or "", tr, 1))
        if not any(st[5] for (st, oc) in res):
            facts.append(Fact("close:calls-close", False, False, run.site(f, loop), "dog.close() is never called"))
    return facts


# -------------------------------------------------------------- deque ends
def deque_end_facts(run, cls):
    """C02.R1: enter appends right, exit pops right (LIFO); recur pops left / appends right."""
    facts = {}
    ix = run.ix
    enter, recur, exit_ = (ix.method(cls, n) for n in ("enter", "recur", "exit"))
    # enter: the append of the new deed
    ends = set()
    site = run.site(enter)
    for n in walk_local(enter.node):
        mc = method_call(n) if isinstance(n, ast.Call) else None
        if mc and mc[1] in ("append", "appendleft") and n.args and isinstance(n.args[0], ast.Tuple) \
                and len(n.args[0].elts) == 3:
            ends.add("right" if mc[1] == "append" else "left")
            site = run.site(enter, n)
    facts["enter.append-end"] = (tuple(sorted(ends)), site)
    pops = deque_loops(exit_)
    facts["exit.pop-end"] = (tuple(sorted({p[3] for p in pops})), run.site(exit_, pops[0][1]) if pops else run.site(exit_))
    pops = deque_loops(recur)
    facts["recur.pop-end"] = (tuple(sorted({p[3] for p in pops})), run.site(recur, pops[0][1]) if pops else run.site(recur))
    ends = set()
    site = run.site(recur)
    for loop, popstmt, deq, end, names in pops:
        for n in ast.walk(loop):
            mc = method_call(n) if isinstance(n, ast.Call) else None
            if mc and mc[0] == deq and mc[1] in ("append", "appendleft") and n.args and isinstance(n.args[0], ast.Tuple):
                ends.add("right" if mc[1] == "append" else "left")
                site = run.site(recur, n)
    facts["recur.reappend-end"] = (tuple(sorted(ends)), site)
    return facts


# ------------------------------------------------------------ recur facts
class RecurDeps(DepDomain):
    """Dependence sets inside the once-through loop body of recur."""

    def __init__(self, deq, names, tyme_syms):
        super().__init__()
        self.deq, self.names = deq, names
        self.tyme_syms = tyme_syms
        self.appends = []     # (tags, deps per tuple element, node)
        self.sends = []       # (tags, arg deps, node)
        self.due_tests = []   # canonical comparison
        self.tock_tests = []

    def unpack_source(self, value, i, n, state):
        if isinstance(value, ast.Call):
            mc = method_call(value)
            if mc and mc[0] == self.deq and mc[1] in ("pop", "popleft"):
                return fs("deed[%d]" % i)
        return None

    def call_source(self, call, state):
        mc = method_call(call)
        if mc and mc[1] == "send" and self.deps(call.func.value, state) == fs("deed[0]"):
            return fs("yielded")
        if dotted(call.func) == "next" and call.args and self.deps(call.args[0], state) == fs("deed[0]"):
            return fs("yielded")
        return None

    def probe(self, node, state):
        mc = method_call(node)
        if not mc:
            return
        if mc[1] == "send" and self.deps(node.func.value, state) == fs("deed[0]"):
            self.sends.append((state[1], self.deps(node.args[0], state) if node.args else frozenset(), node))
        if mc[0] == self.deq and mc[1] in ("append", "appendleft") and node.args and isinstance(node.args[0], ast.Tuple):
            elts = node.args[0].elts
            self.appends.append((state[1], tuple(self.deps(e, state) for e in elts), node))

    def raises(self, node, state):
        if isinstance(node, ast.Call):
            mc = method_call(node)
            if mc and mc[1] == "send":
                return ("StopIteration",)
        return ()

    def tag(self, test, truth, state):
        if isinstance(test, ast.Compare) and len(test.ops) == 1:
            l, r = self.deps(test.left, state), self.deps(test.comparators[0], state)
            op = type(test.ops[0]).__name__
            flip = {"Lt": "Gt", "LtE": "GtE", "Gt": "Lt", "GtE": "LtE", "Eq": "Eq", "NotEq": "NotEq"}
            if l == fs("deed[1]") and op in flip:
                self.due_tests.append((op, tuple(sorted(r)), test))
                return ("due", truth)
            if r == fs("deed[1]") and op in flip:
                self.due_tests.append((flip[op], tuple(sorted(l)), test))
                return ("due", truth)
        d = self.deps(test, state)
        if d == fs("yielded"):
            if isinstance(test, ast.Name):
                self.tock_tests.append(("truthy", test))
                return ("tock", truth)
            self.tock_tests.append(("other:" + unparse(test), test))
            return ("tock?", truth)
        if d == fs("deed[0]"):
            return ("dog", truth)
        return None


def recur_facts(run, cls):
    """C03.R2-R5 facts for recur of Doist / DoDoer.  Symbol table: TYME is the
    scheduler's current tyme (self.tyme for Doist, the tyme parameter for DoDoer)."""
    ix = run.ix
    f = ix.method(cls, "recur")
    params = f.params()[0]
    tyme_syms = {"tyme"} if "tyme" in params else {"self.tyme"}
    facts = {}
    loops = [x for x in deque_loops(f) if x[3] == "left"]
    if len(loops) != 1:
        raise AnalysisError("expected one once-through loop in %s, found %d" % (f.fq, len(loops)))
    loop, popstmt, deq, end, names = loops[0]
    site = run.site(f, loop)

    def sym(deps):
        return tuple(sorted("TYME" if d in tyme_syms else d for d in deps))

    # R2 marker appended before the loop, same deque, same end as re-appends
    marker = None
    for st in f.node.body:
        if st is loop:
            break
        for n in ast.walk(st):
            mc = method_call(n) if isinstance(n, ast.Call) else None
            if mc and mc[0] == deq and mc[1] in ("append", "appendleft") and n.args \
                    and isinstance(n.args[0], ast.Tuple) and all(isinstance(e, ast.Constant) and e.value is None for e in n.args[0].elts):
                marker = ("right" if mc[1] == "append" else "left", n)
    facts["recur.marker-before-loop"] = (marker[0] if marker else None, run.site(f, marker[1]) if marker else site)

    dom = RecurDeps(deq, names, tyme_syms)
    it = Interp(dom, run.lat)
    res = it.block(loop.body, {dom.initial(): ()}, None)
    run.paths += len(res)
    # R3 due test
    due = sorted({(op, sym(rhs)) for op, rhs, node in dom.due_tests})
    facts["recur.due-test"] = (tuple(due), run.site(f, dom.due_tests[0][2]) if dom.due_tests else site)
    # R5 send value
    sends = sorted({sym(d) for tags, d, node in dom.sends})
    facts["recur.send-value"] = (tuple(sends), run.site(f, dom.sends[0][2]) if dom.sends else site)
    facts["recur.send-only-when-due"] = (all(("due", True) in tags for tags, d, n in dom.sends) and bool(dom.sends),
                                         run.site(f, dom.sends[0][2]) if dom.sends else site)
    facts["recur.tock-test"] = (tuple(sorted({k for k, n in dom.tock_tests})), site)
    # R4 retyme per branch
    by = {}
    for tags, elts, node in dom.appends:
        t = dict(x for x in tags if isinstance(x, tuple) and x[0] in ("due", "tock", "tock?"))
        if t.get("due") is False:
            key = "not-due"
        elif t.get("due") is True and t.get("tock") is True:
            key = "tock-truthy"
        elif t.get("due") is True and t.get("tock") is False:
            key = "tock-falsy"
        else:
            key = "other:" + ",".join("%s=%s" % kv for kv in sorted(t.items()))
        if len(elts) == 3:
            by.setdefault(key, set()).add((sym(elts[0]), sym(elts[1]), sym(elts[2])))
        else:
            by.setdefault(key, set()).add(("arity", len(elts)))
        facts.setdefault("recur.append-site:" + key, (None, run.site(f, node)))
    for key in ("not-due", "tock-truthy", "tock-falsy"):
        vals = by.get(key, set())
        facts["recur.reappend:" + key] = (tuple(sorted(vals)), facts.get("recur.append-site:" + key, (None, site))[1])
    others = sorted(k for k in by if k.startswith("other"))
    facts["recur.reappend:unclassified"] = (tuple(others), site)
    for k in [k for k in facts if k.startswith("recur.append-site:")]:
        del facts[k]
    return facts, tyme_syms


EXPECT_RECUR = {
    "recur.marker-before-loop": "right",
    "recur.due-test": (("LtE", ("TYME",)),),
    "recur.send-value": (("TYME",),),
    "recur.send-only-when-due": True,
    "recur.tock-test": ("truthy",),
    "recur.reappend:not-due": ((("deed[0]",), ("deed[1]",), ("deed[2]",)),),
    "recur.reappend:tock-truthy": ((("deed[0]",), ("deed[1]", "yielded"), ("deed[2]",)),),
    "recur.reappend:tock-falsy": ((("deed[0]",), ("TYME", "self.tock"), ("deed[2]",)),),
    "recur.reappend:unclassified": (),
}


# ------------------------------------------------------------- tick facts
class CountDomain(Domain):
    """Counts calls of self.<name>() per path (0,1,2+) and whether inside a loop."""

    def __init__(self, name):
        self.name = name

    def initial(self):
        return 0

    def on_event(self, node, state):
        if isinstance(node, ast.Call) and is_self_call(node, self.name):
            yield min(state + 1, 2), NORMAL
            return
        yield state, NORMAL


def tick_facts(run, cls):
    f = run.ix.method(cls, "recur")
    res = Interp(CountDomain("tick"), run.lat).run(f.node)
    run.paths += len(res)
    counts = sorted({st for (st, oc) in res if oc == RETURN})
    in_loop = any(enclosing(n, (ast.While, ast.For)) is not None for n in walk_local(f.node)
                  if isinstance(n, ast.Call) and is_self_call(n, "tick"))
    # tick after the once-through loop
    order_ok = False
    loops = [x for x in deque_loops(f) if x[3] == "left"]
    if loops:
        loop = loops[0][0]
        after = False
        for st in f.node.body:
            if st is loop:
                after = True
                continue
            if after and any(isinstance(n, ast.Call) and is_self_call(n, "tick") for n in ast.walk(st)):
                order_ok = True
    return {"recur.tick-count": (tuple(counts), run.site(f)), "recur.tick-in-loop": (in_loop, run.site(f)),
            "recur.tick-after-loop": (order_ok, run.site(f))}


# ------------------------------------------------------------ enter facts
class EnterDeps(DepDomain):
    def __init__(self):
        super().__init__()
        self.appends = []
        self.creates = []
        self.done_stores = []

    def call_source(self, call, state):
        return None

    def probe(self, node, state):
        mc = method_call(node)
        if mc and mc[1] in ("append", "appendleft") and node.args and isinstance(node.args[0], ast.Tuple) \
                and len(node.args[0].elts) == 3:
            self.appends.append((mc[0], mc[1], tuple(self.deps(e, state) for e in node.args[0].elts), node))

    def raises(self, node, state):
        if isinstance(node, ast.Call):
            mc = method_call(node)
            if (mc and mc[1] == "send") or dotted(node.func) == "next":
                return ("StopIteration",)
        return ()


def enter_facts(run, cls):
    """first due tyme, tymth injection, done=False store, which deque receives."""
    ix = run.ix
    f = ix.method(cls, "enter")
    facts = {}
    dom = EnterDeps()
    res = Interp(dom, run.lat).run(f.node)
    run.paths += len(res)
    retymes = sorted({tuple(sorted(e[1])) for (deq, meth, e, node) in dom.appends})
    facts["enter.first-due"] = (tuple(retymes), run.site(f, dom.appends[0][3]) if dom.appends else run.site(f))
    # the dog creation call: doer(tymth=..., tock=...)
    tymth = set()
    tock = set()
    csite = run.site(f)
    for n in walk_local(f.node):
        if isinstance(n, ast.Call) and isinstance(n.func, ast.Name):
            kws = {k.arg: k.value for k in n.keywords if k.arg}
            if "tymth" in kws:
                tymth.add(unparse(kws["tymth"]))
                tock.add(unparse(kws.get("tock")) if kws.get("tock") is not None else None)
                csite = run.site(f, n)
    facts["enter.tymth-injected"] = (tuple(sorted(tymth)), csite)
    facts["enter.tock-injected"] = (tuple(sorted(str(t) for t in tock)), csite)
    # advance to first yield, StopIteration handled
    adv = set()
    for n in walk_local(f.node):
        if isinstance(n, ast.Call):
            mc = method_call(n)
            if mc and mc[1] == "send" and n.args and isinstance(n.args[0], ast.Constant) and n.args[0].value is None:
                adv.add("advance")
            elif dotted(n.func) == "next" and len(n.args) == 1:
                adv.add("advance")
    facts["enter.advances-dog"] = (tuple(sorted(adv)), run.site(f))
    return facts


# ------------------------------------------------------- done provenance
def done_store_facts(run, f):
    """Every store to <x>.done / <x>.__func__.done (x != self) in f: classify the RHS.
    Returns list of (classification, site, text)."""
    out = []
    for n in walk_local(f.node):
        if isinstance(n, ast.Assign):
            for t in n.targets:
                d = dotted(t)
                if d and d.endswith(".done") and not d.startswith("self."):
                    out.append((classify_done_rhs(n), run.site(f, n), unparse(n)))
    return out


def classify_done_rhs(assign):
    v = assign.value
    if isinstance(v, ast.Constant):
        return "const:%r" % (v.value,)
    # X if X is not None else <doer>.done   with X = ex.value | done (close result)
    if isinstance(v, ast.IfExp):
        body, test, orelse = v.body, v.test, v.orelse
        src = dotted(body)
        keep = dotted(orelse)
        if src and keep and keep.endswith(".done") and isinstance(test, ast.Compare) and dotted(test.left) == src \
                and len(test.ops) == 1 and isinstance(test.ops[0], ast.IsNot) \
                and getattr(test.comparators[0], "value", 0) is None:
            # where does src come from?
            h = enclosing(assign, ast.ExceptHandler)
            if h is not None and h.name and src == h.name + ".value":
                types = dotted(h.type) if h.type is not None else None
                return "from:%s.value" % types
            return "from:" + src
        return "ifexp:" + unparse(v)
    return "expr:" + unparse(v)


def close_result_name(f):
    """name bound to dog.close() in f, or None."""
    for n in walk_local(f.node):
        if isinstance(n, ast.Assign) and isinstance(n.value, ast.Call):
            mc = method_call(n.value)
            if mc and mc[1] == "close" and isinstance(n.targets[0], ast.Name):
                return n.targets[0].id
    return None


# ------------------------------------------------------------------ C02.R3
class EnterSafety(Domain):
    """state = (origin of the receiving deque: None|'attr'|'fresh', appended, handed)"""

    NORAISE = {"deque", "hasattr", "isinstance", "list", "len", "dict"}

    def __init__(self, deq):
        self.deq = deq

    def initial(self):
        return (None, False, False)

    def on_store(self, target, value, state, stmt):
        origin, app, handed = state
        if isinstance(target, ast.Name) and target.id == self.deq:
            if isinstance(value, ast.Call) and dotted(value.func) in ("deque", "collections.deque"):
                return ("fresh", False, False)
            return ("attr", False, False)
        return state

    def on_event(self, node, state):
        origin, app, handed = state
        if isinstance(node, ast.Call):
            mc = method_call(node)
            name = dotted(node.func)
            if mc and mc[0] == self.deq and mc[1] in ("append", "appendleft", "extend"):
                yield (origin, True, handed), NORMAL
                return
            # the local deque handed to something that closes or keeps it
            if any(dotted(a) == self.deq for a in node.args) or any(dotted(k.value) == self.deq for k in node.keywords):
                yield (origin, app, True), NORMAL
                yield (origin, app, True), RAISE("Exception")
                return
            if name in self.NORAISE:
                yield state, NORMAL
                return
            if (mc and mc[1] == "send") or name == "next":
                yield state, NORMAL
                yield state, RAISE("StopIteration")
                yield state, RAISE("Exception")
                return
            yield state, NORMAL
            yield state, RAISE("Exception")
            return
        yield state, NORMAL


def _enter_safety_assume(self, test, truth, state):
    """`deeds is not self.deeds` is decided by the origin of the local deque."""
    origin = state[0]
    t, neg = test, False
    while isinstance(t, ast.UnaryOp) and isinstance(t.op, ast.Not):
        t, neg = t.operand, not neg
    if isinstance(t, ast.Compare) and len(t.ops) == 1 and isinstance(t.ops[0], (ast.Is, ast.IsNot)):
        l, r = dotted(t.left), dotted(t.comparators[0])
        if self.deq in (l, r) and origin is not None and (l or "").startswith("self.") != (r or "").startswith("self."):
            same = origin == "attr"
            val = (same == isinstance(t.ops[0], ast.Is)) != neg
            return state if val == truth else None
    return Domain.assume(self, test, truth, state)


EnterSafety.assume = _enter_safety_assume


def enter_safety_facts(run, f):
    """C02.R3: an exception leaving enter() must not strand doers already entered into a fresh local deque."""
    # name of the deque returned by enter
    deq = None
    for n in walk_local(f.node):
        if isinstance(n, ast.Return) and isinstance(n.value, ast.Name):
            deq = n.value.id
    if deq is None:
        raise AnalysisError("enter() does not return its deque by name: %s" % f.fq)
    res = Interp(EnterSafety(deq), run.lat).run(f.node)
    run.paths += len(res)
    facts = []
    fresh_seen = False
    for (st, oc), tr in sorted(res.items(), key=lambda kv: str(kv[0])):
        origin, app, handed = st
        if origin == "fresh":
            fresh_seen = True
        if not is_raise(oc):
            continue
        bad = None
        if origin == "fresh" and app and not handed:
            bad = ("exception %s leaves enter() while doers already entered by this call sit in the fresh local "
                   "deque `%s`: they are reachable from nowhere and are never exited" % (oc[1], deq))
        facts.append(Fact("enter-safety:origin=%s,entered=%s,handed=%s|raise:%s" % (origin, app, handed, oc[1]),
                          bad is None, bad is None, run.site(f), bad or "", tr, 1))
    if not fresh_seen:
        facts.append(Fact("enter-safety:no-fresh-branch", True, True, run.site(f), ""))
    return facts


# ------------------------------------------------------------------ C02.R5
class MarkerDomain(Domain):
    """state = marker-in-deque bit during recur."""

    def __init__(self, deq, dog):
        self.deq, self.dog = deq, dog

    def initial(self):
        return False

    def on_event(self, node, state):
        if isinstance(node, ast.Call):
            mc = method_call(node)
            if mc and mc[0] == self.deq and mc[1] in ("append", "appendleft") and node.args \
                    and isinstance(node.args[0], ast.Tuple) \
                    and all(isinstance(e, ast.Constant) and e.value is None for e in node.args[0].elts):
                yield True, NORMAL
                return
            if mc and mc[0] == self.dog and mc[1] in ("send", "throw"):
                yield state, NORMAL
                yield state, RAISE("StopIteration")
                yield state, RAISE("Exception")
                return
            if dotted(node.func) == "next":
                yield state, NORMAL
                yield state, RAISE("StopIteration")
                yield state, RAISE("Exception")
                return
        yield state, NORMAL

    def assume(self, test, truth, state):
        t, neg = test, False
        while isinstance(t, ast.UnaryOp) and isinstance(t.op, ast.Not):
            t, neg = t.operand, not neg
        if dotted(t) == self.dog:
            is_dog = truth != neg
            if not is_dog:
                return False        # marker recognised: no longer in the deque
            return state
        return super().assume(test, truth, state)


def rotation_hazard_facts(run, cls):
    ix = run.ix
    recur, exit_ = ix.method(cls, "recur"), ix.method(cls, "exit")
    loops = [x for x in deque_loops(recur) if x[3] == "left"]
    if len(loops) != 1:
        raise AnalysisError("expected one once-through loop in %s" % recur.fq)
    loop, popstmt, deq, end, names = loops[0]
    res = Interp(MarkerDomain(deq, names[0]), run.lat).run(recur.node)
    run.paths += len(res)
    hazards = [(oc, tr) for (st, oc), tr in res.items() if is_raise(oc) and st]
    # does exit use the marker position?
    eloops = deque_loops(exit_)
    reorder = []
    for n in walk_local(exit_.node):
        if isinstance(n, ast.Call):
            mc = method_call(n)
            if mc and mc[1] in ("rotate", "index", "reverse", "sort"):
                reorder.append(n)
            elif dotted(n.func) in ("sorted", "reversed"):
                reorder.append(n)
    plain_skip = False
    for eloop, epop, edeq, eend, enames in eloops:
        for st in eloop.body:
            if isinstance(st, ast.If) and dotted(st.test.operand if isinstance(st.test, ast.UnaryOp) else st.test) == enames[0]:
                if all(isinstance(b, (ast.Continue, ast.Pass)) for b in st.body):
                    plain_skip = True
    facts = []
    ok = (not hazards) or bool(reorder) or not plain_skip
    what = ""
    trail = None
    if not ok:
        oc, trail = sorted(hazards, key=lambda x: len(x[1]))[0]
        what = ("%s can leave recur() (raise %s) with the once-through marker still in the rotated deque, and exit() "
                "merely skips the marker: doers already run this cycle (entered earlier) are closed before doers not "
                "yet run (entered later) - forced exits are not in reverse enter order" % (recur.qualname, oc[1]))
    facts.append(Fact("rotation-hazard", ok, ok, run.site(exit_), what, trail, len(res)))
    note = None
    if hazards and reorder:
        note = "%s: reordering present in exit() (%s); its correctness is not decided" % (cls.name, unparse(reorder[0]))
    return facts, note
