"""TCP/TLS facts for C09-C12 (hio.core.tcp.clienting / serving)."""
import ast

from .absint import Domain, Interp, NORMAL, RETURN, BREAK, CONTINUE, RAISE, is_raise
from .astutil import method_call, unparse, is_self_call, enclosing, parent, kwarg, in_subtree, keytext
from .deps import DepDomain, fs
from .index import dotted, walk_local
from .loader import AnalysisError

CM, SM = "hio.core.tcp.clienting", "hio.core.tcp.serving"
SIBLINGS = ((CM, "Client"), (CM, "ClientTls"), (SM, "Remoter"), (SM, "RemoterTls"))

REQUIRED_CUTOFF = {"errno.ECONNRESET", "errno.EPIPE", "errno.ENETRESET", "errno.ENETUNREACH", "errno.EHOSTUNREACH",
                   "errno.ENETDOWN", "errno.EHOSTDOWN", "errno.ETIMEDOUT", "errno.ECONNREFUSED"}
REQUIRED_TLS = {"ssl.SSL_ERROR_EOF"}
WOULDBLOCK_PLAIN = {"errno.EAGAIN", "errno.EWOULDBLOCK"}
WOULDBLOCK_TLS = {"ssl.SSL_ERROR_WANT_READ", "ssl.SSL_ERROR_WANT_WRITE"}


def kind_of(name):
    """Kind of a symbolic table element: errno-int, ssl-int, class, other."""
    if name is None:
        return "other"
    if name.startswith("errno.E"):
        return "errno-int"
    if name.startswith("ssl.SSL_ERROR_"):
        return "ssl-int"
    tail = name.rsplit(".", 1)[-1]
    if tail.endswith("Error") or tail.endswith("Exception"):
        return "class"
    return "other"


# ------------------------------------------------------------- C09.R1 send
class OriginDomain(DepDomain):
    """Dependence domain in which constants and the kernel call keep their identity."""

    def __init__(self, kernel_attr):
        super().__init__()
        self.kernel_attr = kernel_attr     # 'send' or 'recv'
        self.returns = []

    def deps(self, e, state):
        if isinstance(e, ast.Constant):
            return fs("const:%r" % (e.value,))
        if isinstance(e, ast.Call) and dotted(e.func) in ("bytes", "bytearray") and not e.args and not e.keywords:
            return fs("const:b''")
        return super().deps(e, state)

    def call_source(self, call, state):
        mc = method_call(call)
        if mc and mc[0] == "self.cs" and mc[1] == self.kernel_attr:
            return fs("kernel")
        return None

    def raises(self, node, state):
        if isinstance(node, ast.Call):
            mc = method_call(node)
            if mc and mc[0] == "self.cs" and mc[1] == self.kernel_attr:
                return ("OSError",)
        return ()

    def on_return(self, stmt, state):
        self.returns.append((self.deps(stmt.value, state) if stmt.value is not None else fs("const:None"), stmt))
        return state


def io_return_facts(run, f, kernel):
    """Origins of every returned value of send()/receive()."""
    dom = OriginDomain(kernel)
    res = Interp(dom, run.lat).run(f.node)
    run.paths += len(res)
    origins = set()
    for d, st in dom.returns:
        origins |= set(d)
    return origins, res


def send_discipline_facts(run, cls):
    ix = run.ix
    facts = []
    ss = ix.method(cls, "serviceSends")
    send = ix.method(cls, "send")
    tx = ix.method(cls, "tx")
    # --- serviceSends: the only mutation of txbs is del txbs[:count], count = self.send(self.txbs)
    muts = buffer_mutations(ss, "txbs")
    ok_all = bool(muts)
    for kind, node in muts:
        ok = False
        why = "txbs is mutated by `%s`" % unparse(node)
        if kind == "del" and isinstance(node.targets[0], ast.Subscript) and isinstance(node.targets[0].slice, ast.Slice):
            sl = node.targets[0].slice
            lower_ok = sl.lower is None or (isinstance(sl.lower, ast.Constant) and sl.lower.value == 0)
            if lower_ok and sl.step is None and isinstance(sl.upper, ast.Name):
                src = _local_def_before(ss, node, sl.upper.id)
                if src is not None and isinstance(src, ast.Call) and is_self_call(src, "send") \
                        and src.args and dotted(src.args[0]) == "self.txbs":
                    ok = True
                else:
                    why = "the deleted prefix length `%s` is not the value returned by self.send(self.txbs)" % sl.upper.id
            else:
                why = "txbs is trimmed by `%s`, not by the prefix [:count] that send() reported" % unparse(node)
        facts.append(("serviceSends:trim:%s" % keytext(ss, node), ok, run.site(ss, node), "" if ok else why))
        ok_all = ok_all and ok
    if not muts:
        facts.append(("serviceSends:trim-present", False, run.site(ss), "serviceSends never removes sent bytes from txbs"))
    # --- send: returned value is the kernel's count or constant 0
    origins, res = io_return_facts(run, send, "send")
    bad = sorted(o for o in origins if o not in ("kernel", "const:0"))
    facts.append(("send:returns-kernel-count-or-0", not bad and "kernel" in origins, run.site(send),
                  "" if (not bad and "kernel" in origins) else "send() may return a value derived from %s instead of the kernel's count / 0" % (bad or "nothing of the kernel")))
    # --- tx only extends
    muts = buffer_mutations(tx, "txbs")
    ok = bool(muts) and all(kind == "call:extend" for kind, node in muts)
    facts.append(("tx:extends-only", ok, run.site(tx), "" if ok else "tx() mutates txbs by %s" % [k for k, n in muts]))
    return facts


def _shape(node):
    """Construct shape with local names abstracted (stable under renaming)."""
    t = unparse(node)
    return t


def _local_def_before(f, node, name):
    """Value of the last `name = ...` assignment in the same block before node (or enclosing blocks)."""
    p = parent(node)
    cur = node
    while p is not None:
        for field in ("body", "orelse", "finalbody"):
            blk = getattr(p, field, None)
            if isinstance(blk, list) and cur in blk:
                for st in reversed(blk[:blk.index(cur)]):
                    if isinstance(st, ast.Assign) and any(isinstance(t, ast.Name) and t.id == name for t in st.targets):
                        return st.value
        if p is f.node:
            break
        cur, p = p, parent(p)
    return None


MUT_METHODS = {"extend", "append", "clear", "pop", "insert", "remove", "reverse", "__setitem__", "__delitem__", "__iadd__", "popleft", "appendleft"}


def buffer_mutations(f, attr, recv=None):
    """[(kind, node)] mutations of <x>.<attr> in function f (x any receiver unless recv given)."""
    out = []

    def is_buf(e):
        return isinstance(e, ast.Attribute) and e.attr == attr and (recv is None or dotted(e.value) == recv)
    for n in walk_local(f.node):
        if isinstance(n, ast.Delete):
            for t in n.targets:
                base = t.value if isinstance(t, ast.Subscript) else t
                if is_buf(base):
                    out.append(("del", n))
        elif isinstance(n, ast.Assign):
            for t in n.targets:
                base = t.value if isinstance(t, ast.Subscript) else t
                if is_buf(base):
                    out.append(("assign", n))
        elif isinstance(n, ast.AugAssign):
            base = n.target.value if isinstance(n.target, ast.Subscript) else n.target
            if is_buf(base):
                out.append(("augassign", n))
        elif isinstance(n, ast.Call) and isinstance(n.func, ast.Attribute) and is_buf(n.func.value) \
                and n.func.attr in MUT_METHODS:
            out.append(("call:" + n.func.attr, n))
    return out


# ---------------------------------------------------------- C09.R2 receive
class RxDomain(Domain):
    """state = (data truthiness: None/True/False, got: bool, extended count)"""

    def __init__(self, var):
        self.var = var

    def initial(self):
        return (None, False, 0)

    def on_store(self, target, value, state, stmt):
        if isinstance(target, ast.Name) and target.id == self.var:
            if isinstance(value, ast.Call) and is_self_call(value, "receive"):
                return (None, True, 0)
            return (None, False, state[2])
        return state

    def on_event(self, node, state):
        t, got, ext = state
        if isinstance(node, ast.Call):
            mc = method_call(node)
            if mc and mc[0] == "self.rxbs" and mc[1] == "extend" and node.args and dotted(node.args[0]) == self.var:
                yield (t, got, min(ext + 1, 2)), NORMAL
                return
            if is_self_call(node, "receive"):
                yield state, NORMAL
                yield state, RAISE("OSError")
                return
        yield state, NORMAL

    def assume(self, test, truth, state):
        t0, got, ext = state
        t, neg = test, False
        while isinstance(t, ast.UnaryOp) and isinstance(t.op, ast.Not):
            t, neg = t.operand, not neg
        if dotted(t) == self.var:
            val = truth != neg
            if t0 is not None and t0 != val:
                return None
            return (val, got, ext)
        return super().assume(test, truth, state)


def receive_discipline_facts(run, cls):
    ix = run.ix
    facts = []
    for meth in ("serviceReceives", "serviceReceiveOnce"):
        f = ix.method(cls, meth)
        var = None
        for n in walk_local(f.node):
            if isinstance(n, ast.Assign) and isinstance(n.value, ast.Call) and is_self_call(n.value, "receive") \
                    and isinstance(n.targets[0], ast.Name):
                var = n.targets[0].id
        if var is None:
            facts.append(("%s:calls-receive" % meth, False, run.site(f), "%s does not bind the result of self.receive()" % meth))
            continue
        # one pass: the loop body for serviceReceives, the whole function otherwise
        loops = [n for n in walk_local(f.node) if isinstance(n, ast.While)]
        dom = RxDomain(var)
        it = Interp(dom, run.lat)
        if loops and meth == "serviceReceives":
            res = it.block(loops[0].body, {dom.initial(): ()}, None)
        else:
            res = it.run(f.node)
        run.paths += len(res)
        for (st, oc), tr in sorted(res.items(), key=lambda kv: str(kv[0])):
            t, got, ext = st
            if not got or is_raise(oc):
                continue
            bad = None
            if t is True and ext != 1:
                bad = "non-empty data returned by receive() reaches rxbs.extend(data) %d times (lost or duplicated)" % ext
            elif t is False and ext:
                bad = "empty data extended"
            elif t is None and ext != 1 and oc in (NORMAL, CONTINUE):
                bad = "data of unknown emptiness is not stored (extended %d times) and the pass goes on" % ext
            elif t is None and ext == 0:
                bad = "pass ends (%s) without testing or storing received data" % oc[0]
            facts.append(("%s:data=%s,extended=%d|%s" % (meth, t, ext, oc[0]), bad is None, run.site(f), bad or "", tr))
        muts = buffer_mutations(f, "rxbs")
        ok = all(kind == "call:extend" for kind, n in muts)
        facts.append(("%s:rxbs-only-extended" % meth, ok, run.site(f), "" if ok else "rxbs mutated by %s" % [unparse(n) for k, n in muts]))
    recv = ix.method(cls, "receive")
    origins, res = io_return_facts(run, recv, "recv")
    bad = sorted(o for o in origins if o not in ("kernel", "const:None", "const:b''"))
    ok = not bad and "kernel" in origins
    facts.append(("receive:returns-kernel-data-or-empty", ok, run.site(recv),
                  "" if ok else "receive() may return %s instead of exactly what recv() returned / None / b''" % (bad or "nothing of the kernel")))
    return facts


# --------------------------------------------------------- C09.R3 wire log
def wirelog_facts(run, cls):
    ix = run.ix
    facts = []
    send = ix.method(cls, "send")
    recv = ix.method(cls, "receive")
    # send: writeTx(data[:count]) under `if count`
    count = None
    for n in walk_local(send.node):
        if isinstance(n, ast.Assign) and isinstance(n.value, ast.Call):
            mc = method_call(n.value)
            if mc and mc[0] == "self.cs" and mc[1] == "send" and isinstance(n.targets[0], ast.Name):
                count = n.targets[0].id
    data = send.params()[0][1] if len(send.params()[0]) > 1 else None
    calls = [n for n in walk_local(send.node) if isinstance(n, ast.Call) and (method_call(n) or (None, None))[1] == "writeTx"]
    for c in calls:
        a = c.args[0] if c.args else None
        ok = isinstance(a, ast.Subscript) and dotted(a.value) == data and isinstance(a.slice, ast.Slice) \
            and a.slice.lower is None and dotted(a.slice.upper) == count and a.slice.step is None
        guard = _guarded_by_truth(c, count)
        facts.append(("send:writeTx-logs-sent-prefix", ok and guard, run.site(send, c),
                      "" if ok and guard else "wire log records `%s`%s, expected %s[:%s] on the count>0 path" %
                      (unparse(a) if a is not None else None, "" if guard else " unguarded", data, count)))
    if not calls:
        facts.append(("send:writeTx-present", False, run.site(send), "send() no longer logs transmitted bytes"))
    rdata = None
    for n in walk_local(recv.node):
        if isinstance(n, ast.Assign) and isinstance(n.value, ast.Call):
            mc = method_call(n.value)
            if mc and mc[0] == "self.cs" and mc[1] == "recv" and isinstance(n.targets[0], ast.Name):
                rdata = n.targets[0].id
    calls = [n for n in walk_local(recv.node) if isinstance(n, ast.Call) and (method_call(n) or (None, None))[1] == "writeRx"]
    for c in calls:
        a = c.args[0] if c.args else None
        ok = dotted(a) == rdata and rdata is not None
        guard = _guarded_by_truth(c, rdata)
        facts.append(("receive:writeRx-logs-received-data", ok and guard, run.site(recv, c),
                      "" if ok and guard else "wire log records `%s`%s, expected the full received `%s` on the non-empty path" %
                      (unparse(a) if a is not None else None, "" if guard else " unguarded", rdata)))
    if not calls:
        facts.append(("receive:writeRx-present", False, run.site(recv), "receive() no longer logs received bytes"))
    return facts


def _guarded_by_truth(node, name):
    """node sits in the body of an `if <name>` (possibly nested deeper)."""
    cur, p = node, parent(node)
    while p is not None:
        if isinstance(p, ast.If) and dotted(p.test) == name and any(in_subtree(node, b) for b in p.body):
            return True
        if isinstance(p, ast.If) and isinstance(p.test, ast.BoolOp) and isinstance(p.test.op, ast.And) \
                and any(dotted(v) == name for v in p.test.values) and any(in_subtree(node, b) for b in p.body):
            return True         # `if <name> and <other>:` (nested ifs merged)
        if isinstance(p, ast.If) and isinstance(p.test, ast.UnaryOp) and isinstance(p.test.op, ast.Not) and dotted(p.test.operand) == name \
                and any(in_subtree(node, b) for b in p.orelse):
            return True         # the else side of `if not <name>` (elif chains keep this spelling)
        cur, p = p, parent(p)
    return False


# ---------------------------------------------------- C10.R1 errno tables
def classification_sites(run, f):
    """In f: the `except OSError` handler's if/elif chain on ex.args[0]/ex.errno.
    Returns list of dict(test_expr, elems[list of dotted], branch body, node) in order, plus the else body."""
    out = []
    for h in [n for n in walk_local(f.node) if isinstance(n, ast.ExceptHandler)]:
        if h.name is None:
            continue
        chain = [st for st in h.body if isinstance(st, ast.If)]
        for first in chain:
            cur = first
            arms = []
            while isinstance(cur, ast.If):
                t = cur.test
                if isinstance(t, ast.Compare) and len(t.ops) == 1 and isinstance(t.ops[0], ast.In) \
                        and isinstance(t.comparators[0], (ast.Tuple, ast.List, ast.Set)):
                    subj = unparse(t.left)
                    if subj in (h.name + ".args[0]", h.name + ".errno"):
                        arms.append({"subject": subj, "elems": [dotted(e) or unparse(e) for e in t.comparators[0].elts],
                                     "body": cur.body, "node": cur})
                nxt = cur.orelse
                if len(nxt) == 1 and isinstance(nxt[0], ast.If):
                    cur = nxt[0]
                else:
                    if arms:
                        out.append({"handler": h, "arms": arms, "else": nxt})
                    break
    return out


def errno_table_facts(run, cls, meth):
    f = run.ix.method(cls, meth)
    tls = "Tls" in cls.name
    facts = []
    sites = classification_sites(run, f)
    if not sites:
        facts.append(("%s:classification-present" % meth, False, run.site(f), "no errno classification chain found in the OSError handler"))
        return facts
    s = sites[0]
    arms = s["arms"]
    run.rows += sum(len(a["elems"]) for a in arms)
    # arm classification by effect: sets cutoff -> cut-off arm ; else would-block arm
    cut = [a for a in arms if any(isinstance(n, ast.Assign) and dotted(n.targets[0]) == "self.cutoff" for st in a["body"] for n in ast.walk(st))]
    wb = [a for a in arms if a not in cut]
    key = "%s" % meth
    if not cut:
        facts.append((key + ":cutoff-arm-present", False, run.site(f, arms[0]["node"]), "no arm of the classification sets self.cutoff"))
        return facts
    c = cut[0]
    elems = set(c["elems"])
    for need in sorted(REQUIRED_CUTOFF | (REQUIRED_TLS if tls else set())):
        if need == "errno.EPIPE" and meth != "send":
            continue        # recv() never reports a broken pipe: only the send side must classify it
        ok = need in elems
        facts.append((key + ":cutoff-covers:" + need, ok, run.site(f, c["node"]),
                      "" if ok else "the cut-off list lacks %s: that fault is re-raised out of servicing instead of marking the connection cut off" % need))
    wbin = sorted(elems & (WOULDBLOCK_PLAIN | WOULDBLOCK_TLS))
    facts.append((key + ":cutoff-has-no-wouldblock", not wbin, run.site(f, c["node"]),
                  "" if not wbin else "would-block value %s sits in the cut-off list: a merely blocked connection is treated as cut off" % wbin))
    for e in sorted(elems):
        k = kind_of(e)
        ok = k in ("errno-int", "ssl-int")
        facts.append((key + ":cutoff-elem-kind:" + e, ok, run.site(f, c["node"]),
                      "" if ok else "`%s` is a %s but is compared with the integer %s: it can never match" % (e, k, c["subject"])))
    raises = [n for st in c["body"] for n in ast.walk(st) if isinstance(n, ast.Raise)]
    sets_true = any(isinstance(n, ast.Assign) and dotted(n.targets[0]) == "self.cutoff" and getattr(n.value, "value", None) is True
                    for st in c["body"] for n in ast.walk(st))
    facts.append((key + ":cutoff-arm-marks-and-does-not-raise", sets_true and not raises, run.site(f, c["node"]),
                  "" if (sets_true and not raises) else "the cut-off arm must set self.cutoff = True and not raise"))
    for a in wb:
        want = WOULDBLOCK_TLS if tls else WOULDBLOCK_PLAIN
        got = set(a["elems"])
        ok = got >= want and all(kind_of(e) in ("errno-int", "ssl-int") for e in got) and not (got & (REQUIRED_CUTOFF | REQUIRED_TLS))
        facts.append((key + ":wouldblock-list", ok, run.site(f, a["node"]),
                      "" if ok else "would-block list is %s, expected at least %s and no cut-off errno" % (sorted(got), sorted(want))))
        if any(isinstance(n, ast.Raise) for st in a["body"] for n in ast.walk(st)):
            facts.append((key + ":wouldblock-arm-does-not-raise", False, run.site(f, a["node"]), "would-block arm raises"))
    return facts


# ------------------------------------------------------- C10.R2 handshake
ABORT_FAULTS = {"ssl.SSL_ERROR_EOF", "errno.ECONNABORTED"}


SOCKET_OSERROR_CALLS = {"getpeername", "getsockname", "getsockopt", "setsockopt", "shutdown", "send", "sendall", "recv", "recv_into", "unwrap"}


class HandshakeDomain(Domain):
    """state = (closed, flagged, connected, want, eof)
    want: the WANT_READ/WRITE arm was taken (True) / excluded (False) / not classified (None)
    eof : the fault is TLS EOF / ECONNABORTED (True) / excluded (False) / not classified (None)
    flagged: self.aborted or self.cutoff set True"""

    def initial(self):
        return (False, False, False, None, None)

    def on_event(self, node, state):
        closed, flagged, connected, want, eof = state
        if isinstance(node, ast.Call):
            mc = method_call(node)
            if mc and mc[1] == "do_handshake":
                yield state, NORMAL
                yield state, RAISE("SSLError")
                yield state, RAISE("OSError")
                yield state, RAISE("Exception")
                return
            if is_self_call(node, "close"):
                yield (True, flagged, connected, want, eof), NORMAL
                return
            if mc and mc[0] == "self.cs" and mc[1] in SOCKET_OSERROR_CALLS:
                # a query / operation on the connection's own socket fails with OSError (ENOTCONN, EBADF) once the peer has reset it
                yield state, NORMAL
                yield state, RAISE("OSError")
                return
        yield state, NORMAL

    def on_store(self, target, value, state, stmt):
        closed, flagged, connected, want, eof = state
        d = dotted(target)
        if d in ("self.aborted", "self.cutoff") and getattr(value, "value", None) is True:
            return (closed, True, connected, want, eof)
        if d == "self.connected" and getattr(value, "value", None) is True:
            return (closed, flagged, True, want, eof)
        return state

    def on_handler(self, handler, kind, state):
        return state[:3] + (None, None)

    def assume(self, test, truth, state):
        closed, flagged, connected, want, eof = state
        if isinstance(test, ast.Compare) and len(test.ops) == 1 and isinstance(test.ops[0], ast.In) \
                and isinstance(test.comparators[0], (ast.Tuple, ast.List)):
            el = {dotted(e) for e in test.comparators[0].elts}
            if el and el <= WOULDBLOCK_TLS:
                if truth and (want is False or eof is True):
                    return None
                return (closed, flagged, connected, truth, (False if truth else eof))
            if el & ABORT_FAULTS:
                covers = ABORT_FAULTS <= el or True
                if truth and (eof is False or want is True):
                    return None
                if truth:
                    return (closed, flagged, connected, False, True)
                # excluded only if the tuple names every abort fault; otherwise unknown
                return (closed, flagged, connected, want, False if ABORT_FAULTS <= el else eof)
        return super().assume(test, truth, state)


def handshake_facts(run, f, strict=True):
    """strict (server side): no OSError/SSLError may leave handshake() at all.
    relaxed (client side): the TLS-EOF / ECONNABORTED faults named by the property must not leave it."""
    res = Interp(HandshakeDomain(), run.lat).run(f.node)
    run.paths += len(res)
    facts = []
    for (st, oc), tr in sorted(res.items(), key=lambda kv: str(kv[0])):
        closed, flagged, connected, want, eof = st
        label = "closed=%s,flagged=%s,connected=%s,want=%s,eof=%s|%s" % (closed, flagged, connected, want, eof,
                                                                         oc[0] + (":" + oc[1] if is_raise(oc) else ""))
        bad = None
        if is_raise(oc) and run.lat.issub(oc[1], "OSError") and (strict or eof is not False):
            bad = ("a socket-level fault (%s%s) during the TLS handshake is re-raised out of handshake(): servicing raises "
                   "instead of marking the connection aborted/cut off" % (oc[1], ", TLS EOF / ECONNABORTED not excluded" if not strict else ""))
        elif oc == RETURN and not connected and not want and (closed or flagged) and not (closed and flagged):
            bad = "handshake fault path returns with closed=%s flagged=%s (both are required)" % (closed, flagged)
        elif flagged and not closed:
            bad = "aborted/cutoff is set without closing the socket"
        facts.append(("handshake:" + label, bad is None, run.site(f), bad or "", tr))
    return facts


def handshake_oserror_free(run, f):
    return all(ok for name, ok, site, what, tr in handshake_facts(run, f))


# ------------------------------------------------------ C10.R3 isolation
def connection_loops(run, cls):
    """Loops in service* methods of a server class over self.ixes / self.cxes:
    returns [(f, loop, container, loopvars, calls on the connection var)]"""
    ix = run.ix
    out = []
    seen = set()
    for k in cls.mro:
        for name, f in k.methods.items():
            if not name.startswith("service") or ix.resolve_method(cls, name) is not f or f in seen:
                continue
            seen.add(f)
            for loop in [n for n in walk_local(f.node) if isinstance(n, ast.For)]:
                src = [dotted(n) for n in ast.walk(loop.iter) if isinstance(n, ast.Attribute)]
                cont = [s for s in src if s in ("self.ixes", "self.cxes")]
                if not cont:
                    continue
                names = [n.id for n in ast.walk(loop.target) if isinstance(n, ast.Name)]
                calls = []
                for n in ast.walk(loop):
                    if isinstance(n, ast.Call):
                        mc = method_call(n)
                        if mc and mc[0] in names:
                            calls.append(n)
                        elif mc and mc[0] and mc[0].startswith(cont[0] + "["):
                            calls.append(n)
                out.append((f, loop, cont[0], names, calls))
    return out


def in_try_catching(run, node, stop, kind="OSError"):
    cur, p = node, parent(node)
    while p is not None and cur is not stop:
        if isinstance(p, ast.Try) and cur in p.body:
            for h in p.handlers:
                types = None if h.type is None else [run.lat.canon(dotted(e)) for e in (h.type.elts if isinstance(h.type, ast.Tuple) else [h.type])]
                if run.lat.catches(types, kind)[0] == "yes":
                    # the handler must not re-raise
                    if not any(isinstance(n, ast.Raise) for st in h.body for n in ast.walk(st)):
                        return True
        cur, p = p, parent(p)
    return False


# ---------------------------------------------------------------- C11 facts
def connection_containers(run, cls):
    """Attributes of a server class that hold connection objects: {attr: [store nodes (f, node)]}.
    Found from subscript stores `self.X[k] = v` where v is (or was constructed as) a Remoter*."""
    ix = run.ix
    remoter = ix.cls(SM, "Remoter")
    out = {}

    def element_vars(f, conts):
        """locals bound to the values of a known connection container by `for k, v in self.C.items()` / `for v in self.C.values()`"""
        names = set()
        for loop in walk_local(f.node):
            if not isinstance(loop, ast.For):
                continue
            for a in ast.walk(loop.iter):
                if isinstance(a, ast.Call) and isinstance(a.func, ast.Attribute) and a.func.attr in ("items", "values"):
                    d = dotted(a.func.value)
                    if d and d.startswith("self.") and d.split(".", 1)[1] in conts:
                        t = loop.target
                        if a.func.attr == "items" and isinstance(t, ast.Tuple) and len(t.elts) == 2 and isinstance(t.elts[1], ast.Name):
                            names.add(t.elts[1].id)
                        if a.func.attr == "values" and isinstance(t, ast.Name):
                            names.add(t.id)
        return names

    changed = True
    while changed:
        changed = False
        for k in cls.mro:
            for name, f in k.methods.items():
                if ix.resolve_method(cls, name) is not f:
                    continue
                ltypes = ix.local_types(f)
                elems = element_vars(f, out)
                for n in walk_local(f.node):
                    if isinstance(n, ast.Assign) and isinstance(n.targets[0], ast.Subscript):
                        base = n.targets[0].value
                        d = dotted(base)
                        if d and d.startswith("self.") and d.count(".") == 1:
                            v = n.value
                            is_conn = False
                            if isinstance(v, ast.Name):
                                tys = ltypes.get(v.id, set())
                                is_conn = any(remoter in t.mro for t in tys) or v.id in elems
                            if is_conn and (f, n) not in out.get(d.split(".")[1], []):
                                out.setdefault(d.split(".")[1], []).append((f, n))
                                changed = True
    return out


def _closes_container(run, cls, f, attr, seen=None):
    """f (resolved on cls) iterates self.<attr> calling .close() on every element, directly or via self-calls."""
    ix = run.ix
    seen = seen or set()
    if f in seen:
        return False
    seen.add(f)
    for loop in [n for n in walk_local(f.node) if isinstance(n, ast.For)]:
        srcs = {dotted(n) for n in ast.walk(loop.iter) if isinstance(n, ast.Attribute)}
        if "self." + attr in srcs:
            names = [n.id for n in ast.walk(loop.target) if isinstance(n, ast.Name)]
            for n in ast.walk(loop):
                mc = method_call(n) if isinstance(n, ast.Call) else None
                if mc and mc[0] in names and mc[1] == "close":
                    return True
    for n in walk_local(f.node):
        if isinstance(n, ast.Call):
            m = is_self_call(n)
            if m:
                g = ix.resolve_method(cls, m)
                if g is not None and _closes_container(run, cls, g, attr, seen):
                    return True
            elif isinstance(n.func, ast.Attribute) and isinstance(n.func.value, ast.Call) \
                    and dotted(n.func.value.func) == "super":
                g = ix.resolve_method(cls, n.func.attr, after=f.cls)
                if g is not None and _closes_container(run, cls, g, attr, seen):
                    return True
    return False


def close_coverage_facts(run, cls):
    ix = run.ix
    facts = []
    conts = connection_containers(run, cls)
    close = ix.method(cls, "close")
    for attr in sorted(conts):
        ok = _closes_container(run, cls, close, attr)
        facts.append(("close-covers:%s" % attr, ok, run.site(close),
                      "" if ok else "%s.close() (resolved to %s) never closes the connections held in self.%s: their sockets stay open "
                      "after the server is closed" % (cls.name, close.qualname, attr)))
    # listen socket closed and set to None
    acc = ix.method(cls, "close")
    chain = _reach_self(run, cls, close)
    ok = any(_closes_then_none(g, "self.ss") for g in chain)
    facts.append(("close-listen-socket", ok, run.site(close), "" if ok else "close() does not close the listen socket and set it to None"))
    return facts, conts


def _reach_self(run, cls, f, seen=None):
    ix = run.ix
    seen = seen if seen is not None else []
    if f in seen:
        return seen
    seen.append(f)
    for n in walk_local(f.node):
        if isinstance(n, ast.Call):
            m = is_self_call(n)
            g = None
            if m:
                g = ix.resolve_method(cls, m)
            elif isinstance(n.func, ast.Attribute) and isinstance(n.func.value, ast.Call) and dotted(n.func.value.func) == "super":
                g = ix.resolve_method(cls, n.func.attr, after=f.cls)
            if g is not None:
                _reach_self(run, cls, g, seen)
    return seen


def _closes_then_none(f, sock):
    """In f: `<sock>.close()` followed (same block) by `<sock> = None`."""
    for n in walk_local(f.node):
        if isinstance(n, ast.Expr) and isinstance(n.value, ast.Call):
            mc = method_call(n.value)
            if mc and mc[0] == sock and mc[1] == "close":
                blk = _block_of(n)
                if blk is not None:
                    i = blk.index(n)
                    for st in blk[i + 1:]:
                        if isinstance(st, ast.Assign) and dotted(st.targets[0]) == sock and getattr(st.value, "value", 0) is None:
                            return True
    return False


def _block_of(stmt):
    p = parent(stmt)
    for field in ("body", "orelse", "finalbody"):
        blk = getattr(p, field, None)
        if isinstance(blk, list) and stmt in blk:
            return blk
    return None


class ReplaceDomain(Domain):
    """state = frozenset of facts true of (container, key): ('absent', c, k) | ('closed', c, k) | ('moved', c, k) """

    CLOSERS = {"closeIx", "removeIx"}

    def __init__(self, closed_flags=("aborted",)):
        self.stores = []    # (container, key, state, node)
        self.dels = []
        self.closed_flags = closed_flags

    def initial(self):
        return frozenset()

    def on_event(self, node, state):
        if isinstance(node, ast.Call):
            mc = method_call(node)
            if mc:
                recv, meth = mc
                # self.X[k].close()
                f = node.func.value
                if meth == "close" and isinstance(f, ast.Subscript) and dotted(f.value):
                    state = state | {("closed", dotted(f.value), unparse(f.slice))}
                elif meth == "close" and recv:
                    state = state | {("closedvar", recv)}
                elif recv == "self" and meth in self.CLOSERS and (node.args or node.keywords):
                    k = node.args[0] if node.args else node.keywords[0].value
                    closeflag = kwarg(node, "close")
                    if closeflag is None or getattr(closeflag, "value", None) is True:
                        state = state | {("closed", "self.ixes", unparse(k))}
        yield state, NORMAL

    def on_store(self, target, value, state, stmt):
        if isinstance(target, ast.Subscript) and dotted(target.value) and dotted(target.value).startswith("self."):
            self.stores.append((dotted(target.value), unparse(target.slice), state, stmt))
            # storing makes the key present again
            return frozenset(x for x in state if not (x[0] in ("absent", "closed") and x[1:] == (dotted(target.value), unparse(target.slice))))
        if isinstance(target, ast.Name):
            # x = self.X[k] ; remember alias
            if isinstance(value, ast.Subscript) and dotted(value.value):
                return state | {("alias", target.id, dotted(value.value), unparse(value.slice))}
            if isinstance(value, tuple) and value[0] == "unpack" and isinstance(value[1], tuple) and value[1][0] == "iter":
                it = value[1][1]
                # for k, v in list(self.X.items())
                src = [dotted(n) for n in ast.walk(it) if isinstance(n, ast.Attribute) and n.attr in ("items",)]
                if src and value[2] == 1:
                    return state | {("elem", target.id, src[0].rsplit(".", 1)[0])}
                if src and value[2] == 0:
                    return state | {("keyvar", target.id, src[0].rsplit(".", 1)[0])}
        return state

    def on_delete(self, target, state, stmt):
        if isinstance(target, ast.Subscript) and dotted(target.value):
            self.dels.append((dotted(target.value), unparse(target.slice), state, stmt))
            return state | {("deleted", dotted(target.value), unparse(target.slice))}
        return state

    def assume(self, test, truth, state):
        t, neg = test, False
        while isinstance(t, ast.UnaryOp) and isinstance(t.op, ast.Not):
            t, neg = t.operand, not neg
        if isinstance(t, ast.BoolOp) and isinstance(t.op, ast.And) and (truth != neg):
            for v in t.values:
                state = self.assume(v, True, state)
                if state is None:
                    return None
            return state
        if isinstance(t, ast.BoolOp) and isinstance(t.op, ast.And) and (truth == neg) and len(t.values) == 2:
            # not (k in C and C[k] is not v)  ==>  k absent from C, or C[k] is v itself
            a, b = t.values
            if isinstance(a, ast.Compare) and len(a.ops) == 1 and isinstance(a.ops[0], ast.In) and dotted(a.comparators[0]) \
                    and isinstance(b, ast.Compare) and len(b.ops) == 1 and isinstance(b.ops[0], ast.IsNot) \
                    and isinstance(b.left, ast.Subscript) and dotted(b.left.value) == dotted(a.comparators[0]) \
                    and unparse(b.left.slice) == unparse(a.left):
                return state | {("absent-or-same", dotted(a.comparators[0]), unparse(a.left), unparse(b.comparators[0]))}
            return state
        if isinstance(t, ast.Compare) and len(t.ops) == 1 and isinstance(t.ops[0], (ast.In, ast.NotIn)) and dotted(t.comparators[0]):
            present = (truth != neg) == isinstance(t.ops[0], ast.In)
            if not present:
                return state | {("absent", dotted(t.comparators[0]), unparse(t.left))}
            return state
        d = dotted(t)
        if d and "." in d and d.rsplit(".", 1)[1] in self.closed_flags and (truth != neg):
            return state | {("closedvar", d.rsplit(".", 1)[0])}
        if d and "." in d and d.rsplit(".", 1)[1] == "connected" and (truth != neg):
            return state | {("livevar", d.rsplit(".", 1)[0])}
        return super().assume(test, truth, state)


def replace_delete_facts(run, cls, containers):
    """C11.R2 for every method of cls (own methods only)."""
    ix = run.ix
    facts = []
    for name, f in sorted(cls.methods.items()):
        has = any(isinstance(n, (ast.Assign, ast.Delete)) for n in walk_local(f.node))
        if not has:
            continue
        dom = ReplaceDomain()
        res = Interp(dom, run.lat).run(f.node)
        run.paths += len(res)
        seen = {}
        pset = set(f.params()[0]) | set(f.params()[1])

        def keyname(key):
            # obligation keys never contain the spelling of a local: parameters are part of the interface, locals are `<key>`
            return key if key in pset or not key.isidentifier() else "<key>"
        for cont, key, st, node in dom.stores:
            attr = cont.split(".", 1)[1]
            if attr not in containers:
                continue
            ok = ("absent", cont, key) in st or ("closed", cont, key) in st or \
                ("absent-or-same", cont, key, unparse(node.value)) in st
            k = (f.fq, "store:%s[%s]" % (cont, keyname(key)))
            seen[k] = seen.get(k, True) and ok
            seen[(k, "node")] = node
        for cont, key, st, node in dom.dels:
            attr = cont.split(".", 1)[1]
            if attr not in containers:
                continue
            # closed before delete, or the element variable is closed / transferred later in the same iteration
            elemvars = [x[1] for x in st if x[0] == "elem" and x[2] == cont]
            closed = ("closed", cont, key) in st or any(("closedvar", v) in st for v in elemvars)
            # transfer: a later store of the element var into another owned container in the same block
            moved = False
            blk = _block_of(node)
            if blk is not None:
                for later in blk[blk.index(node) + 1:]:
                    if isinstance(later, ast.Assign) and isinstance(later.targets[0], ast.Subscript) \
                            and dotted(later.targets[0].value) and dotted(later.targets[0].value) != cont \
                            and isinstance(later.value, ast.Name) and later.value.id in elemvars:
                        moved = True
            # guarded by a parameter the caller controls (removeIx(close=False))
            param_guard = False
            p = parent(node)
            pnames, kwonly, _, _ = f.params()
            blk2 = _block_of(node)
            if blk2 is not None:
                for prev in blk2[:blk2.index(node)]:
                    if isinstance(prev, ast.If) and isinstance(prev.test, ast.Name) and prev.test.id in pnames + kwonly:
                        closes = any(isinstance(c, ast.Call) and (method_call(c) or (0, 0))[1] == "close" for c in ast.walk(prev))
                        if closes:
                            fi, dflt = _param_default(f, prev.test.id)
                            param_guard = getattr(dflt, "value", None) is True
            ok = closed or moved or param_guard
            k = (f.fq, "del:%s[%s]" % (cont, keyname(key)))
            seen[k] = seen.get(k, True) and ok
            seen[(k, "node")] = node
        for k, ok in seen.items():
            if isinstance(k[0], tuple):
                continue
            node = seen[(k, "node")]
            kind = k[1].split(":")[0]
            facts.append((k[0] + ":" + k[1], ok, run.site(f, node),
                          "" if ok else ("`%s` replaces whatever connection was stored under that key without closing it first "
                                         "(no `not in` test, no close of the previous occupant): the replaced socket leaks" % unparse(node)
                                         if kind == "store" else
                                         "`%s` drops a connection that is neither closed nor moved to another container" % unparse(node))))
    return facts


def _param_default(f, name):
    a = f.node.args
    pos = a.posonlyargs + a.args
    defaults = [None] * (len(pos) - len(a.defaults)) + list(a.defaults)
    for p, d in zip(pos, defaults):
        if p.arg == name:
            return f, d
    for p, d in zip(a.kwonlyargs, a.kw_defaults):
        if p.arg == name:
            return f, d
    return f, None


def socket_close_facts(run, f, sock):
    """C11.R3: on the guarded path `<sock>.close()` then `<sock> = None`."""
    ok = _closes_then_none(f, sock)
    return [("close:%s-closed-then-None" % sock, ok, run.site(f),
             "" if ok else "%s does not call %s.close() followed by %s = None" % (f.qualname, sock, sock))]


def open_discipline_facts(run):
    """C11.R4: socket.socket(...) assigned to self.cs/self.ss only in open(); internal open() calls preceded by close()."""
    ix = run.ix
    facts = []
    for modname in (CM, SM):
        for fq, f in sorted(ix.functions.items()):
            if f.module.name != modname or f.cls is None or fq.endswith("@setter"):
                continue
            for n in walk_local(f.node):
                if isinstance(n, ast.Assign) and isinstance(n.value, ast.Call) and dotted(n.value.func) == "socket.socket":
                    ok = f.name == "open"
                    facts.append(("%s:creates-socket" % f.fq, ok, run.site(f, n),
                                  "" if ok else "a fresh socket is created outside open(): the previous one is not closed by reopen discipline"))
                if isinstance(n, ast.Call) and is_self_call(n, "open"):
                    blk_stmt = n
                    while blk_stmt is not None and not isinstance(blk_stmt, ast.stmt):
                        blk_stmt = parent(blk_stmt)
                    blk = _block_of(blk_stmt)
                    ok = False
                    if blk is not None:
                        for prev in blk[:blk.index(blk_stmt)]:
                            if any(isinstance(c, ast.Call) and is_self_call(c, "close") for c in ast.walk(prev)):
                                ok = True
                    facts.append(("%s:open-after-close" % f.fq, ok, run.site(f, n),
                                  "" if ok else "%s calls self.open() without closing the previous socket first" % f.qualname))
    return facts


# ------------------------------------------------ C11.R2b flag implies closed
class _FlagClosed(Domain):
    """state = (flag set True on this path, self.close() called on this path)"""

    def __init__(self, flag):
        self.flag = flag

    def initial(self):
        return (False, False)

    def on_event(self, node, state):
        if isinstance(node, ast.Call) and is_self_call(node, "close"):
            yield (state[0], True), NORMAL
            return
        yield state, NORMAL
        if isinstance(node, ast.Call) and not (dotted(node.func) or "").startswith("logger."):
            yield state, RAISE("BaseException")     # any other call may raise into the handlers

    def on_store(self, target, value, state, stmt):
        if dotted(target) == self.flag and isinstance(value, ast.Constant):
            return (value.value is True, state[1])
        return state


def flag_implies_closed_facts(run, f, flag):
    """ServerTls.serviceCxes drops a pending connection from .cxes when its `aborted` flag is set and relies on the flag meaning
    'already closed'.  Every path of the handshake that leaves with the flag set must have called self.close()."""
    res = Interp(_FlagClosed(flag), run.lat).run(f.node)
    run.paths += len(res)
    facts = []
    seen = {}
    for (st, oc), tr in sorted(res.items(), key=lambda kv: str(kv[0])):
        flagged, closed = st
        if not flagged:
            continue
        k = "flagged-path-closes:%s" % ("raise" if is_raise(oc) else "return")
        seen[k] = seen.get(k, True) and closed
        if not closed:
            seen[(k, "trail")] = tr
    for k, ok in sorted((k, v) for k, v in seen.items() if isinstance(k, str)):
        facts.append((k, ok, run.site(f), "" if ok else "%s sets %s = True on a path that never calls self.close(): the server then forgets the "
                      "connection (del .cxes[ca]) with its socket still open" % (f.qualname, flag), seen.get((k, "trail"))))
    return facts
