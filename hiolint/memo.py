"""Memoer facts for C20-C22 (hio.core.memo.memoing)."""
import ast
import re

from .absint import Domain, Interp, NORMAL, RETURN, RAISE, is_raise
from .astutil import method_call, unparse, parent, in_subtree, is_self_call, keytext, oriented, flat
from .index import dotted, walk_local
from .linear import linform, same, show
from .loader import AnalysisError

MM = "hio.core.memo.memoing"
SIZES = ("bz", "nz", "mz", "vz", "az")


# ------------------------------------------------------------------ tables
def codex(ix, name):
    """Codes of a frozen dataclass codex: {field: value} from class-level defaults."""
    c = ix.cls(MM, name)
    out = {}
    for st in c.node.body:
        if isinstance(st, ast.AnnAssign) and isinstance(st.target, ast.Name) and isinstance(st.value, ast.Constant):
            out[st.target.id] = st.value.value
    return out


def sizes_table(ix):
    """Memoer.Sizes evaluated: {code: {bz:..}}"""
    m = ix.cls(MM, "Memoer")
    v = m.assigns.get("Sizes")
    if not isinstance(v, ast.Dict):
        raise AnalysisError("Memoer.Sizes is not a dict literal")
    out = {}
    for k, val in zip(v.keys, v.values):
        if isinstance(k, ast.Constant) and isinstance(val, ast.Call):
            row = {kw.arg: kw.value.value for kw in val.keywords if isinstance(kw.value, ast.Constant)}
            out[k.value] = row
    return out


def pairs_table(ix):
    """Memoer.Pairs from the class-level subscript stores `Pairs[MemoDex.X] = MemoDex.Y`."""
    m = ix.cls(MM, "Memoer")
    dex = codex(ix, "MemoGramCodex")
    out = {}
    for st in m.node.body:
        if isinstance(st, ast.Assign) and isinstance(st.targets[0], ast.Subscript) and dotted(st.targets[0].value) == "Pairs":
            k, v = dotted(st.targets[0].slice), dotted(st.value)
            if k and v:
                out[dex.get(k.split(".")[-1])] = dex.get(v.split(".")[-1])
    return out


# ------------------------------------------------------- C20.R1 layout
def writer_layout(run, f):
    """Order of header parts concatenated by rend(), per branch (zeroth / other):
    [(field, guard)] with field in bz nz mz vz body az, classified through def-use of the operands."""
    bufname = [None]
    defs = {}
    vidparam = f.params()[0][2] if len(f.params()[0]) > 2 else None
    for n in walk_local(f.node):
        if isinstance(n, ast.Assign) and isinstance(n.targets[0], ast.Name):
            defs.setdefault(n.targets[0].id, []).append(n.value)

    def origin_text(name, depth=0, seen=None):
        seen = seen if seen is not None else set()
        if name in seen or depth > 4:
            return ""
        seen.add(name)
        out = []
        for v in defs.get(name, []):
            out.append(unparse(v))
            for x in ast.walk(v):
                if isinstance(x, ast.Name) and x.id != name:
                    out.append(origin_text(x.id, depth + 1, seen))
        return " ".join(out)

    def classify(e, depth=0):
        if isinstance(e, ast.Subscript) and dotted(e.value) == bufname[0]:
            return "body"
        if isinstance(e, ast.Name):
            t = origin_text(e.id)
            for marker, fld in (("self.sign(", "az"), ("intToB64b(", "nz"), (".to_bytes(", "nz"), ("makeMID", "mz"),
                                ("self.code", "bz"), ("self.Pairs", "bz")):
                if marker in t:
                    return fld
            if vidparam and re.search(r"\b%s\b" % re.escape(vidparam), t):
                return "vz"
        return "?" + unparse(e)

    def flatten(e):
        if isinstance(e, ast.BinOp) and isinstance(e.op, ast.Add):
            return flatten(e.left) + flatten(e.right)
        return [e]

    layouts = []
    # the body buffer is whatever name the segmentation loop tests and consumes (`while B: ... del B[:n]`)
    loops = [n for n in walk_local(f.node) if isinstance(n, ast.While) and isinstance(n.test, ast.Name)
             and any(isinstance(d, ast.Delete) and isinstance(d.targets[0], ast.Subscript) and dotted(d.targets[0].value) == n.test.id for d in ast.walk(n))]
    if not loops:
        raise AnalysisError("rend(): segmentation loop `while <buffer>: ... del <buffer>[:n]` not found")
    memoparam = loops[0].test.id
    bufname[0] = memoparam
    top = [s for s in loops[0].body if isinstance(s, ast.If)]
    if not top:
        raise AnalysisError("rend(): zeroth / non-zeroth branch not found")
    emitted = {dotted(c.args[0]) for st in loops[0].body for c in ast.walk(st)
               if isinstance(c, ast.Call) and isinstance(c.func, ast.Attribute) and c.func.attr == "append" and c.args and isinstance(c.args[0], ast.Name)}
    for branch, body in (("zeroth", top[0].body), ("other", top[0].orelse)):
        order = []
        # accumulators: the local appended to the result list, and every local whose concatenation is its leftmost operand
        acc = set(emitted)
        for st in body:
            for n in ast.walk(st):
                if isinstance(n, ast.Assign) and dotted(n.targets[0]) in emitted:
                    first = flatten(n.value)[0]
                    if isinstance(first, ast.Name) and len(flatten(n.value)) > 1:
                        acc.add(first.id)       # the head: leftmost operand of the emitted gram
        for st in body:
            for n in ast.walk(st):
                if isinstance(n, ast.Assign) and dotted(n.targets[0]) in acc:
                    parts = flatten(n.value)
                    for p in parts:
                        if dotted(p) in acc:
                            continue
                        order.append(classify(p))
                elif isinstance(n, ast.AugAssign) and dotted(n.target) in acc and isinstance(n.op, ast.Add):
                    order.append(classify(n.value))
        layouts.append((branch, order))
    return layouts


def reader_slices(run, f):
    """In pick(): for each branch (b2 / b64) the header slices gram[L:U] as linear forms over the size symbols."""
    # the encoding flag is whichever local receives self.wiff(gram)
    flags = {t.id for n in flat(f.node.body) if isinstance(n, ast.Assign) and isinstance(n.value, ast.Call) and is_self_call(n.value, "wiff")
             for t in n.targets if isinstance(t, ast.Name)}
    top = [n for n in flat(f.node.body) if isinstance(n, ast.If) and dotted(n.test) in flags]
    if not top:
        raise AnalysisError("pick(): `if curt` branch not found")
    out = []
    for branch, body in (("b2", top[0].body), ("b64", top[0].orelse)):
        # the five size locals are named by position of the unpacking of self.Sizes[code] (bz nz mz vz az), whatever they are called
        ren = {}
        for st in flat(body):
            if isinstance(st, ast.Assign) and isinstance(st.targets[0], ast.Tuple) and len(st.targets[0].elts) == 5 and "Sizes[" in unparse(st.value):
                ren = {t.id: canon for t, canon in zip(st.targets[0].elts, SIZES) if isinstance(t, ast.Name)}
        ozname = None
        for st in flat(body):
            if isinstance(st, ast.Assign) and isinstance(st.targets[0], ast.Name) and isinstance(st.value, ast.BinOp):
                lf = linform(st.value)
                if lf and set(lf) == set(ren) and all(v == 1 for v in lf.values()):
                    ozname = st.targets[0].id
        if ozname:
            ren[ozname] = "oz"

        def canon(lf):
            return None if lf is None else {ren.get(k, k): v for k, v in lf.items()}
        buf = f.params()[0][1] if len(f.params()[0]) > 1 else "gram"
        rows = []
        for st in body:
            for n in ast.walk(st):
                if isinstance(n, ast.Subscript) and dotted(n.value) == buf and isinstance(n.slice, ast.Slice) \
                        and isinstance(n.ctx, ast.Load) and n.slice.lower is not None and n.slice.upper is not None:
                    lo, hi = canon(linform(n.slice.lower)), canon(linform(n.slice.upper))
                    rows.append((lo, hi, n))
        scaled = set()
        for st in flat(body):
            if isinstance(st, ast.Assign) and isinstance(st.targets[0], ast.Name) and st.targets[0].id in ren and ren[st.targets[0].id] in SIZES:
                t = unparse(st.value).replace(" ", "")
                if t == "3*%s//4" % st.targets[0].id:
                    scaled.add(ren[st.targets[0].id])
                else:
                    scaled.add(ren[st.targets[0].id] + ":" + t)
        out.append((branch, rows, scaled, body, ren, buf))
    return out


def layout_facts(run):
    ix = run.ix
    rend, pick = ix.func(MM, "Memoer.rend"), ix.func(MM, "Memoer.pick")
    facts = []
    want = ["bz", "nz", "mz", "vz", "body", "az"]
    for branch, order in writer_layout(run, rend):
        ok = order == want
        facts.append(("writer-order:%s" % branch, ok, run.site(rend),
                      "" if ok else "rend() concatenates the %s gram as %s; the reader's offsets assume %s" % (branch, order, want)))
    # writer: in the base-2 branch every overhead total that later sizes a gram body is scaled like the header parts
    curt = [n for n in flat(rend.node.body) if isinstance(n, ast.If) and dotted(n.test) == "self.curt"]
    scaled = set()
    for n in curt[:1]:
        for st in n.body:
            if isinstance(st, ast.Assign) and isinstance(st.targets[0], ast.Name) and unparse(st.value).replace(" ", "") == "3*%s//4" % st.targets[0].id:
                scaled.add(st.targets[0].id)
    used = set()
    for n in walk_local(rend.node):
        if isinstance(n, ast.Assign) and isinstance(n.value, ast.BinOp) and isinstance(n.value.op, ast.Sub) and dotted(n.value.left) == "self.size":
            used.add(dotted(n.value.right))
    missing = sorted(u for u in used if u and u not in scaled)
    facts.append(("writer-b2-scaling", bool(used) and not missing, run.site(rend, curt[0]) if curt else run.site(rend),
                  "" if used and not missing else "rend() scales %s to base-2 sizes but computes a gram body size from the unscaled %s: in binary mode the "
                  "zeroth body is larger than the others and a memo shorter than the difference gets gram count <= 0 "
                  "('hello wo' at size 38 is delivered as '', 'hi' raises OverflowError)" % (sorted(scaled), missing)))
    prefix = {"nz": {"bz": 1}, "mz": {"bz": 1, "nz": 1}, "vz": {"bz": 1, "nz": 1, "mz": 1}}
    for branch, rows, scaled, body, ren, buf in reader_slices(run, pick):
        inv = {v: k for k, v in ren.items()}
        seen = set()
        for lo, hi, node in rows:
            if lo is None or hi is None:
                facts.append(("reader-slice:%s:%s" % (branch, keytext(pick, node)), False, run.site(pick, node), "slice bounds are not linear in the size fields"))
                continue
            width = {k: hi.get(k, 0) - lo.get(k, 0) for k in set(hi) | set(lo)}
            width = {k: v for k, v in width.items() if v}
            if len(width) != 1 or list(width.values()) != [1]:
                facts.append(("reader-slice:%s:%s" % (branch, keytext(pick, node)), False, run.site(pick, node), "slice width %s is not one size field" % show(width)))
                continue
            fld = list(width)[0]
            if fld not in prefix:
                continue
            ok = same(lo, prefix[fld])
            seen.add(fld)
            facts.append(("reader-offset:%s:%s" % (branch, fld), ok, run.site(pick, node),
                          "" if ok else "pick() reads the %s field at offset %s; rend() writes it after %s" % (fld, show(lo), show(prefix[fld]))))
        for fld in ("nz", "mz", "vz"):
            if fld not in seen:
                facts.append(("reader-offset:%s:%s" % (branch, fld), False, run.site(pick), "no slice of width %s found in the %s branch of pick()" % (fld, branch)))
        if branch == "b2":
            ok = scaled == set(SIZES)
            facts.append(("reader-b2-scaling", ok, run.site(pick),
                          "" if ok else "in the base-2 branch the sizes scaled by 3/4 are %s; all of %s must be scaled by the same factor" % (sorted(scaled), list(SIZES))))
        # signature = last az bytes, body after oz - az
        txt = " ".join(unparse(s) for s in body)
        az_, oz_ = inv.get("az", "az"), inv.get("oz", "oz")
        ok = ("%s[-%s if %s else len(%s):]" % (buf, az_, az_, buf)) in txt and ("del %s[:%s - %s]" % (buf, oz_, az_)) in txt
        facts.append(("reader-sig-and-body:%s" % branch, ok, run.site(pick),
                      "" if ok else "the %s branch must take the last az bytes as signature and strip oz - az head bytes" % branch))
        ok = "oz" in inv
        facts.append(("reader-overhead:%s" % branch, ok, run.site(pick), "" if ok else "oz is not bz+nz+mz+vz+az"))
    return facts


# ------------------------------------------------------- C20.R3/R4/R6
def guards(node, f):
    out = []
    p = parent(node)
    while p is not None and p is not f.node:
        if isinstance(p, ast.If):
            pol = any(in_subtree(node, b) for b in p.body)
            out.append((pol, p.test))
        p = parent(p)
    return out


def first_only_facts(run, f):
    facts = []
    consulted = set()
    # the memo id is the first element of what self.pick(gram) returns, whatever the local is called
    mids = {n.targets[0].elts[0].id for n in walk_local(f.node) if isinstance(n, ast.Assign) and isinstance(n.value, ast.Call)
            and is_self_call(n.value, "pick") and isinstance(n.targets[0], ast.Tuple) and n.targets[0].elts and isinstance(n.targets[0].elts[0], ast.Name)}
    if len(mids) != 1:
        raise AnalysisError("%s: `mid, ... = self.pick(gram)` not found" % f.fq)
    for n in walk_local(f.node):
        if isinstance(n, ast.Compare) and len(n.ops) == 1 and isinstance(n.ops[0], (ast.In, ast.NotIn)):
            d = dotted(n.comparators[0])
            if d and d.startswith("self.") and dotted(n.left) in mids:
                consulted.add(d)
            c = n.comparators[0]
            if isinstance(c, ast.Subscript) and dotted(c.value) and dotted(c.slice) in mids:
                consulted.add(dotted(c.value))
        if isinstance(n, ast.Assign) and isinstance(n.targets[0], ast.Subscript):
            t = n.targets[0]
            base = t.value
            cont = dotted(base) if not isinstance(base, ast.Subscript) else dotted(base.value)
            if not cont or not cont.startswith("self."):
                continue
            key = unparse(t.slice)
            where = unparse(t.value)
            ok = False
            for pol, test in guards(n, f):
                for c in ast.walk(test):
                    if isinstance(c, ast.Compare) and len(c.ops) == 1 and unparse(c.left) == key and unparse(c.comparators[0]) == where \
                            and ((isinstance(c.ops[0], ast.NotIn) and pol) or (isinstance(c.ops[0], ast.In) and not pol)):
                        ok = True
            facts.append(("first-only:%s" % keytext(f, t), ok, run.site(f, n),
                          "" if ok else "`%s` is not guarded by `%s not in %s`: a duplicate or replayed gram overwrites what was stored first" % (unparse(n), key, where)))
    return facts, consulted


def completion_facts(run, f):
    """dels after a successful fuse; returns (facts, deleted containers)"""
    facts = []
    deleted = {}
    keyvars = set()
    for n in walk_local(f.node):
        if isinstance(n, ast.Delete):
            for t in n.targets:
                if isinstance(t, ast.Subscript) and dotted(t.value) and isinstance(t.slice, ast.Name):
                    deleted[dotted(t.value)] = n
                    keyvars.add(t.slice.id)
    blocks = {id(parent(n)) for n in deleted.values()}
    want = {"self.rxgs", "self.counts", "self.sources", "self.vids"}
    ok = set(deleted) >= want and len(blocks) == 1 and len(keyvars) == 1
    facts.append(("cleanup-paired", ok, run.site(f),
                  "" if ok else "after a successful fuse %s are deleted (in %d blocks); %s must be deleted together" % (sorted(deleted), len(blocks), sorted(want))))
    return facts, set(deleted)


# ------------------------------------------------------- C21.R1 ownership
class GramDomain(Domain):
    """state = (owned, saved, dropped, dstnone) for _serviceOnceTxGrams
    owned: a gram was popped from the queue in this call; saved: (gram, dst) stored to self.txbs;
    dropped: txbs reset inside the unreachable-peer handler; dstnone: what is known about dst is None"""

    def __init__(self, gramvar="gram", dstvar="dst"):
        self.g, self.d = gramvar, dstvar

    def initial(self):
        return (False, False, False, None)

    def on_event(self, node, state):
        owned, saved, dropped, dn = state
        if isinstance(node, ast.Call):
            mc = method_call(node)
            if mc == ("self.txgs", "popleft"):
                yield (True, False, False, False), NORMAL
                yield state, RAISE("IndexError")
                return
            if is_self_call(node, "send"):
                yield state, NORMAL
                yield state, RAISE("OSError")
                return
        yield state, NORMAL

    def on_store(self, target, value, state, stmt):
        owned, saved, dropped, dn = state
        d = dotted(target)
        if d == "self.txbs":
            if isinstance(value, ast.Tuple) and len(value.elts) == 2 and dotted(value.elts[0]) == self.g:
                return (owned, True, dropped, dn)
            if isinstance(value, ast.Tuple) and len(value.elts) == 2 and getattr(value.elts[1], "value", 0) is None:
                inh = stmt
                while inh is not None and not isinstance(inh, ast.ExceptHandler):
                    inh = parent(inh)
                return (owned, saved, True if inh is not None else dropped, dn) if inh is not None else (owned, False, dropped, dn)
        if d == self.d:
            if isinstance(value, ast.Constant) and value.value is None:
                return (owned, saved, dropped, True)
            if isinstance(value, tuple) and value[0] == "unpack":
                return (owned, saved, dropped, dn if not owned else False)
            return (owned, saved, dropped, None)
        return state

    def assume(self, test, truth, state):
        owned, saved, dropped, dn = state
        t, neg = test, False
        while isinstance(t, ast.UnaryOp) and isinstance(t.op, ast.Not):
            t, neg = t.operand, not neg
        val = truth != neg
        o = oriented(t, lambda e: dotted(e) == self.d)
        if o and getattr(o[2], "value", 0) is None:
            isnone = val == (o[1] in ("Is", "Eq"))
            if dn is not None and dn != isnone:
                return None
            return (owned, saved, dropped, isnone)
        if dotted(t) == self.d:
            isnone = not val
            if dn is True and val:
                return None
            if dn is False and not val:
                return None
            return (owned, saved, dropped, isnone)
        if dotted(t) == self.g and not val:
            # gram proven empty: nothing to lose
            return (owned, True, dropped, dn)
        return super().assume(test, truth, state)


def ownership_facts(run, f):
    sends = [n for n in walk_local(f.node) if isinstance(n, ast.Call) and is_self_call(n, "send") and len(n.args) >= 2
             and all(isinstance(a, ast.Name) for a in n.args[:2])]
    if not sends:
        raise AnalysisError("%s: `self.send(gram, dst)` not found" % f.fq)
    res = Interp(GramDomain(sends[0].args[0].id, sends[0].args[1].id), run.lat).run(f.node)
    run.paths += len(res)
    facts = []
    for (st, oc), tr in sorted(res.items(), key=lambda kv: str(kv[0])):
        owned, saved, dropped, dn = st
        if oc != RETURN:
            continue
        bad = None
        if owned and not saved and not dropped:
            bad = ("a gram popped from .txgs leaves _serviceOnceTxGrams neither stored in .txbs, nor proven empty, nor dropped for an "
                   "unreachable peer: when its first send() returns 0 (would block) the gram is lost")
        facts.append(("ownership:owned=%s,saved=%s,dropped=%s" % (owned, saved, dropped), bad is None, run.site(f), bad or "", tr))
    return facts
