"""Timer facts (C07, C08): linear forms of elapsed/remaining/expired/start/restart for the
four sibling timer classes, and the retrograde pairing in MonoTimer.latest."""
import ast

from .absint import Domain, Interp, NORMAL, RETURN, RAISE, is_raise
from .astutil import unparse, kwarg, is_self_call, oriented
from .index import dotted, walk_local
from .linear import linform, canon_compare, same, show
from .loader import AnalysisError

CLASSES = (("hio.base.tyming", "Tymer"), ("hio.help.timing", "Timer"),
           ("hio.help.timing", "MonoTimer"), ("hio.help.timing", "AsyncTimer"))


def _sym(node):
    return unparse(node)


def _single_return(f):
    rets = [n for n in walk_local(f.node) if isinstance(n, ast.Return) and n.value is not None]
    return rets[0].value if len(rets) == 1 else None


def clock_symbol(lf_elapsed):
    """The NOW symbol of `elapsed = NOW - self._start`."""
    if lf_elapsed is None:
        return None
    cand = [k for k, v in lf_elapsed.items() if k not in (1, "self._start") and v == 1]
    return cand[0] if len(cand) == 1 else None


def timer_facts(run, cls):
    ix = run.ix
    facts = {}
    el = ix.method(cls, "elapsed")
    lf = linform(_single_return(el), sym=_sym)
    now = clock_symbol(lf)
    facts["clock"] = (now, run.site(el))
    facts["elapsed"] = (same(lf, {now: 1, "self._start": -1}) if now else False, run.site(el), show(lf))
    rm = ix.method(cls, "remaining")
    lf = linform(_single_return(rm), sym=_sym)
    facts["remaining"] = (same(lf, {"self._stop": 1, now: -1}) if now else False, run.site(rm), show(lf))
    ex = ix.method(cls, "expired")
    cc = canon_compare(_single_return(ex), sym=_sym) if _single_return(ex) is not None else None
    ok = False
    if cc and now:
        d, op = cc
        ok = (same(d, {now: 1, "self._stop": -1}) and op == "GtE") or (same(d, {now: -1, "self._stop": 1}) and op == "LtE")
    facts["expired"] = (ok, run.site(ex), (show(cc[0]) + " " + cc[1] + " 0") if cc else "<not a comparison>")
    du = ix.method(cls, "duration")
    lf = linform(_single_return(du), sym=_sym)
    facts["duration"] = (same(lf, {"self._stop": 1, "self._start": -1}), run.site(du), show(lf))
    # start(): stores
    st = ix.method(cls, "start")
    stop_ok = start_ok = dur_ok = False
    stop_txt = start_txt = dur_txt = None
    for n in walk_local(st.node):
        if isinstance(n, ast.Assign):
            t = dotted(n.targets[0])
            if t == "self._stop":
                stop_txt = unparse(n.value)
                stop_ok = same(linform(n.value, sym=_sym), {"self._start": 1, "duration": 1})
            elif t == "self._start":
                start_txt = unparse(n.value)
                v = n.value
                if isinstance(v, ast.IfExp) and isinstance(v.test, ast.Compare) and dotted(v.test.left) == "start":
                    given = linform(v.body, sym=_sym)
                    default = linform(v.orelse, sym=_sym)
                    if isinstance(v.test.ops[0], ast.Is):
                        given, default = default, given
                    start_ok = same(given, {"start": 1}) and default is not None and len(default) == 1 \
                        and list(default.values()) == [1] and (list(default)[0] in (now, "time.time()"))
            elif t == "duration":
                dur_txt = unparse(n.value)
                v = n.value
                if isinstance(v, ast.IfExp) and isinstance(v.test, ast.Compare) and dotted(v.test.left) == "duration":
                    given = linform(v.body, sym=_sym)
                    default = linform(v.orelse, sym=_sym)
                    if isinstance(v.test.ops[0], ast.Is):
                        given, default = default, given
                    dur_ok = same(given, {"duration": 1}) and same(default, {"self.duration": 1})
    facts["start.stop=start+duration"] = (stop_ok, run.site(st), stop_txt)
    facts["start.start=given-or-now"] = (start_ok, run.site(st), start_txt)
    facts["start.default-duration-kept"] = (dur_ok, run.site(st), dur_txt)
    rs = ix.method(cls, "restart")
    ok = False
    txt = None
    for n in walk_local(rs.node):
        if isinstance(n, ast.Call) and is_self_call(n, "start"):
            txt = unparse(n)
            s = kwarg(n, "start") or (n.args[1] if len(n.args) > 1 else None)
            d = kwarg(n, "duration") or (n.args[0] if n.args else None)
            ok = dotted(s) == "self._stop" and (d is None or dotted(d) == "duration")
    facts["restart.start=old-stop"] = (ok, run.site(rs), txt)
    return facts


class RetroDomain(Domain):
    """state = (retro branch taken: None/True/False, frozenset of attrs shifted by delta)"""

    def __init__(self, delta):
        self.delta = delta

    def initial(self):
        return (None, None, frozenset())

    def on_store(self, target, value, state, stmt):
        neg, retro, shifted = state
        d = dotted(target)
        if d and d.startswith("self.") and isinstance(value, tuple) and value[0] == "aug":
            if isinstance(value[1], ast.Add) and dotted(value[3]) == self.delta:
                return (neg, retro, shifted | {d})
            return (neg, retro, shifted | {d + ":other"})
        if d and d.startswith("self._") and not (isinstance(value, tuple)):
            lf = linform(value, sym=_sym) if isinstance(value, ast.AST) else None
            if same(lf, {d: 1, self.delta: 1}):
                return (neg, retro, shifted | {d})
            return (neg, retro, shifted | {d + ":other"})
        return state

    def assume(self, test, truth, state):
        neg, retro, shifted = state
        o = oriented(test, lambda e: dotted(e) == self.delta)
        if o and getattr(o[2], "value", None) == 0:
            op = o[1]
            if op == "Lt":
                return (truth, retro, shifted)
            if op == "GtE":
                return (not truth, retro, shifted)
        if dotted(test) == "self.retro":
            return (neg, truth, shifted)
        if isinstance(test, ast.UnaryOp) and isinstance(test.op, ast.Not) and dotted(test.operand) == "self.retro":
            return (neg, not truth, shifted)
        return super().assume(test, truth, state)


def retro_facts(run):
    ix = run.ix
    f = ix.func("hio.help.timing", "MonoTimer.latest")
    delta = None
    for n in walk_local(f.node):
        if isinstance(n, ast.Assign) and isinstance(n.targets[0], ast.Name):
            lf = linform(n.value, sym=_sym)
            if same(lf, {"time.time()": 1, "self._last": -1}):
                delta = n.targets[0].id
    if delta is None:
        raise AnalysisError("MonoTimer.latest: `delta = time.time() - self._last` not found")
    res = Interp(RetroDomain(delta), run.lat).run(f.node)
    run.paths += len(res)
    facts = []
    for (st, oc), tr in sorted(res.items(), key=lambda kv: str(kv[0])):
        neg, retro, shifted = st
        if oc != RETURN:
            ok = neg is True and retro is False      # raising is allowed only for retro disabled on a backward jump
            facts.append(("latest:neg=%s,retro=%s|%s" % (neg, retro, oc[0]), ok, run.site(f),
                          "" if ok else "MonoTimer.latest raises on a path other than the documented retro=False backward jump", tr))
            continue
        want = {"self._start", "self._stop", "self._last"} if neg else {"self._last"}
        ok = set(shifted) == want
        facts.append(("latest:neg=%s,retro=%s|shifted=%s" % (neg, retro, ",".join(sorted(shifted))), ok, run.site(f),
                      "" if ok else "on the %s path MonoTimer.latest shifts %s by delta, expected %s: elapsed/expired are no longer "
                      "invariant under a backward clock jump" % ("delta<0" if neg else "delta>=0", sorted(shifted), sorted(want)), tr))
    return facts


# ----------------------------------------------------- C08.R3 evaluation order
def eval_order_loads(e):
    """Attribute / name loads of an expression in Python's evaluation order (left operand before right, receiver before
    arguments, comparison left before comparators).  Short-circuit and conditional operands are kept in source order."""
    out = []

    def go(n):
        if n is None:
            return
        if isinstance(n, ast.Attribute):
            d = dotted(n)
            if d is not None:
                out.append((d, n))
                return
            go(n.value)
            return
        if isinstance(n, ast.IfExp):
            go(n.test), go(n.body), go(n.orelse)
            return
        for c in ast.iter_child_nodes(n):
            if isinstance(c, (ast.expr, ast.keyword)):
                go(c.value if isinstance(c, ast.keyword) else c)
    go(e)
    return out


def getter_order_facts(run):
    """The getter `MonoTimer.latest` rewrites attributes (self._start/_stop on a backward jump).  A property that combines
    `.latest` with one of those attributes must evaluate `.latest` first: Python evaluates operands left to right, so
    `self._stop <= self.latest` compares the stop of *before* the retrograde shift with the time of *after* it."""
    ix = run.ix
    cls = ix.cls("hio.help.timing", "MonoTimer")
    latest = ix.method(cls, "latest")
    written = set()
    for n in walk_local(latest.node):
        tgt = n.target if isinstance(n, ast.AugAssign) else (n.targets[0] if isinstance(n, ast.Assign) else None)
        d = dotted(tgt) if tgt is not None else None
        if d and d.startswith("self."):
            written.add(d)
    facts = []
    for name in ("elapsed", "expired"):
        f = ix.method(cls, name)
        bad = None
        uses = 0
        for st in walk_local(f.node):
            if not isinstance(st, (ast.Return, ast.Assign, ast.Expr, ast.If, ast.While)):
                continue
            e = st.value if isinstance(st, (ast.Return, ast.Assign, ast.Expr)) else st.test
            loads = eval_order_loads(e)
            names = [d for d, n in loads]
            if "self.latest" not in names:
                continue
            uses += 1
            first = names.index("self.latest")
            early = [d for d in names[:first] if d in written]
            if early:
                bad = (early[0], st)
        ok = uses > 0 and bad is None
        what = ""
        if uses == 0:
            what = "MonoTimer.%s no longer reads the retrograde-corrected clock `.latest`" % name
        elif bad:
            what = ("`%s` reads %s before `.latest` is evaluated; the getter of `.latest` shifts %s back when the system clock has jumped "
                    "backwards, so the value compared is the one from before the shift: right after a backward jump %s momentarily reports "
                    "the un-shifted timer (expired reverts to False)" % (unparse(bad[1]), bad[0], bad[0], name))
        facts.append(("%s:latest-evaluated-before-shifted-attrs" % name, ok, run.site(f, bad[1]) if bad else run.site(f), what))
    return facts, sorted(written)
