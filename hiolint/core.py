"""Run context: obligations, floors, known findings, canaries/mutants, evidence,
exit status.  Contract (DESIGN section 1):
  exit 0  every rule instance holds or fails only at listed known findings
  exit 1  + 'VIOLATION property=<id> replay=<path>' for every other failing instance
  exit 2  + 'ANALYSIS-ERROR ...' when the analysis itself cannot be trusted
"""
import ast
import json
import os
import re
import sys
import time
import traceback

from .loader import AnalysisError, REPO
from .index import Index
from .excs import Lattice

VERIF = os.path.dirname(os.path.dirname(os.path.abspath(__file__)))
EVID = os.environ.get("HIOLINT_EVID") or os.path.join(VERIF, "evidence")
KNOWN = os.path.join(VERIF, "known_findings.json")


def norm(node_or_text):
    """Normalised construct text: unparse + whitespace collapse (no line numbers)."""
    if isinstance(node_or_text, ast.AST):
        try:
            t = ast.unparse(node_or_text)
        except Exception:
            t = ast.dump(node_or_text)
    else:
        t = str(node_or_text)
    t = re.sub(r"\s+", " ", t).strip()
    return t[:160]


class Ob:
    __slots__ = ("rule", "key", "ok", "site", "what", "trail", "weight")

    def __init__(self, rule, key, ok, site, what, trail, weight):
        self.rule, self.key, self.ok, self.site, self.what = rule, key, ok, site, what
        self.trail, self.weight = trail, weight

    def asdict(self):
        d = {"rule": self.rule, "instance": self.key, "holds": self.ok, "site": self.site}
        if self.what:
            d["what"] = self.what
        if self.trail:
            d["trail"] = list(self.trail)
        return d


class Run:
    def __init__(self, prop, tier="quick", index=None, quiet=False):
        self.prop = prop
        self.tier = tier
        self.ix = index if index is not None else Index()
        self.lat = Lattice(self.ix)
        self.obs = []
        self.floors = {}
        self.notes = []
        self.functions = set()
        self.modules = set()
        self.paths = 0
        self.sites = 0
        self.rows = 0
        self.inconclusive = []
        self.extra = {}
        self.quiet = quiet

    # --- recording --------------------------------------------------------
    def site(self, f, node=None):
        """'relpath:line (qualname)' ; also records the function/module as analysed."""
        self.use(f)
        ln = getattr(node, "lineno", None) if node is not None else f.node.lineno
        return "%s:%s (%s)" % (f.module.relpath, ln, f.qualname)

    def use(self, f):
        self.functions.add(f.fq)
        self.modules.add(f.module.name)

    def use_module(self, m):
        self.modules.add(m.name)

    def ob(self, rule, key, ok, site="", what="", trail=None, weight=1):
        """One rule instance (obligation).  key must identify the construct
        without line numbers: 'module:qualname:<normalised construct>'."""
        self.obs.append(Ob(rule, key, bool(ok), site, what, tuple(trail) if trail else None, weight))
        return bool(ok)

    def floor(self, rule, n):
        self.floors[rule] = n

    def note(self, text):
        self.notes.append(text)

    def inconclusive_at(self, rule, site, why):
        self.inconclusive.append("%s at %s: %s" % (rule, site, why))

    def failing(self):
        return [o for o in self.obs if not o.ok]

    def failing_keys(self):
        return {(o.rule, o.key) for o in self.obs if not o.ok}


class Mutant:
    """Single-construct edit of the current source, applied in memory only."""

    def __init__(self, mid, module, qualname, old, new, rules=None, canary=False, silent=False,
                 count=1, requires_fixed=None):
        self.id, self.module, self.qualname = mid, module, qualname
        self.old, self.new = old, new
        self.rules = set(rules or ())
        self.canary, self.silent, self.count = canary, silent, count

    def overlay(self, ix):
        m = ix.modules.get(self.module)
        if m is None:
            return None
        lines = m.source.split("\n")
        if self.qualname:
            f = ix.functions.get(self.module + ":" + self.qualname)
            c = ix.classes.get(self.module + ":" + self.qualname)
            node = f.node if f else (c.node if c else None)
            if node is None:
                return None
            lo = node.lineno - 1
            if getattr(node, "decorator_list", None):
                lo = min(lo, node.decorator_list[0].lineno - 1)
            hi = node.end_lineno
        else:
            lo, hi = 0, len(lines)
        seg = "\n".join(lines[lo:hi])
        if self.old not in seg:
            return None
        if self.count == 0:
            seg2 = seg.replace(self.old, self.new)
        else:
            seg2 = seg.replace(self.old, self.new, self.count)
        src = "\n".join(lines[:lo] + [seg2] + lines[hi:])
        try:
            import warnings
            with warnings.catch_warnings():
                warnings.simplefilter('ignore')
                ast.parse(src)
        except SyntaxError:
            return None
        return {m.relpath: src}


def load_known():
    if not os.path.exists(KNOWN):
        return []
    with open(KNOWN) as f:
        return json.load(f).get("findings", [])


def run_rules(propmod, prop, tier, overlay=None):
    ix = Index(overlay=overlay)
    run = Run(prop, tier, ix)
    propmod.check(run)
    return run


def _mutant_job(args):
    propname, prop, mid = args
    try:
        import importlib
        propmod = importlib.import_module("hiolint.props." + propname)
        base_ix = Index()
        mut = [m for m in propmod.MUTANTS if m.id == mid][0]
        ov = mut.overlay(base_ix)
        if ov is None:
            return mid, "skipped", [], None
        try:
            r = run_rules(propmod, prop, "quick", overlay=ov)
        except AnalysisError as ex:
            return mid, "analysis-error", [], str(ex)
        fails = sorted({(o.rule, o.key) for o in r.obs if not o.ok})
        floor_miss = [rule for rule, n in r.floors.items()
                      if sum(1 for o in r.obs if o.rule == rule) < n]
        return mid, "ran", fails, (floor_miss or r.inconclusive or None)
    except Exception:
        return mid, "crash", [], traceback.format_exc()


def run_mutants(propname, propmod, prop, base, which, jobs=1):
    """Return list of result dicts for the selected mutants."""
    muts = [m for m in getattr(propmod, "MUTANTS", []) if which(m)]
    if not muts:
        return []
    args = [(propname, prop, m.id) for m in muts]
    if jobs > 1 and len(args) > 1:
        import multiprocessing as mp
        with mp.get_context("fork").Pool(min(jobs, len(args))) as pool:
            results = pool.map(_mutant_job, args)
    else:
        results = [_mutant_job(a) for a in args]
    base_keys = base.failing_keys()
    out = []
    for m, (mid, status, fails, info) in zip(muts, results):
        new = [k for k in fails if tuple(k) not in base_keys]
        fired_rules = sorted({k[0] for k in new})
        if status == "skipped":
            verdict = "skipped (anchor text absent on this tree)"
        elif status in ("crash",):
            verdict = "crash"
        elif status == "analysis-error" or (status == "ran" and info and not m.silent and not new):
            # vanished anchor / floor miss / inconclusive on the edited tree = the edit was noticed
            verdict = "noticed (analysis-error: %s)" % (info,)
            if m.silent:
                verdict = "NOISY (analysis-error on a behaviour-preserving rewrite: %s)" % (info,)
        elif m.silent:
            verdict = "silent" if not new else "NOISY"
        else:
            hit = bool(new) and (not m.rules or bool(m.rules & {k[0] for k in new}))
            verdict = "fired" if hit else ("fired-other-rule" if new else "MISSED")
        out.append({"mutant": m.id, "canary": m.canary, "expect": "silent" if m.silent else sorted(m.rules) or "fire",
                    "verdict": verdict, "new_failures": [list(k) for k in new][:6],
                    "info": info if status == "crash" else None})
    return out


def main_check(propname, propmod, argv):
    prop = propname.upper()
    tier = os.environ.get("VERIF_TIER", "quick")
    replay = None
    i = 0
    while i < len(argv):
        if argv[i] == "--tier":
            tier = argv[i + 1]
            i += 2
        elif argv[i] == "--replay":
            replay = argv[i + 1]
            i += 2
        else:
            i += 1
    if tier not in ("quick", "thorough"):
        tier = "quick"
    seed = int(os.environ.get("VERIF_SEED", "0") or 0)
    t0 = time.time()
    evpath = os.path.join(EVID, prop + ".json")
    os.makedirs(EVID, exist_ok=True)

    def write_evidence(cov, violations, assumptions):
        ev = {"property_id": prop, "tier": tier, "seed": seed, "level": "other",
              "coverage": cov, "assumptions": assumptions,
              "wall_s": round(time.time() - t0, 3), "violations": violations}
        tmp = evpath + ".tmp"
        with open(tmp, "w") as f:
            json.dump(ev, f, indent=1, sort_keys=True)
        os.replace(tmp, evpath)

    try:
        try:
            base = run_rules(propmod, prop, tier)
        except AnalysisError as ex:
            print("ANALYSIS-ERROR property=%s %s" % (prop, ex))
            write_evidence({"explanation": "analysis error: %s" % ex, "evaluations": 0,
                            "distinct_nontrivial": 0, "samples": []}, 0, [])
            return 2
        errors = []
        for rule, n in sorted(base.floors.items()):
            got = sum(1 for o in base.obs if o.rule == rule)
            if got < n:
                errors.append("rule %s matched %d instances, floor confirmed by hand is %d" % (rule, got, n))
        for inc in base.inconclusive:
            errors.append("INCONCLUSIVE " + inc)

        known = [k for k in load_known() if k.get("property") == prop and k.get("status") == "known"]
        failing = base.failing()
        if replay:
            with open(replay) as f:
                rp = json.load(f)
            failing = [o for o in failing if o.rule == rp["rule"] and o.key == rp["instance"]]
            if not failing:
                print("replay: instance %s %s holds on the current tree" % (rp["rule"], rp["instance"]))
        matched, viol = [], []
        for o in failing:
            hit = [k for k in known if k["rule"] == o.rule and k["key"] == o.key]
            (matched if hit else viol).append((o, hit[0] if hit else None))

        # canaries (quick) / sensitivity matrix (thorough)
        jobs = int(os.environ.get("HIOLINT_JOBS", "16"))
        if replay:
            mres = []
        elif tier == "thorough":
            mres = run_mutants(propname, propmod, prop, base, lambda m: True, jobs)
        else:
            mres = run_mutants(propname, propmod, prop, base, lambda m: m.canary, jobs)
        if not viol:
            for r in mres:
                if r["canary"] and r["verdict"] in ("MISSED", "crash"):
                    errors.append("canary %s not detected (%s)" % (r["mutant"], r["verdict"]))

        vdir = os.path.join(EVID, prop + ".violations")
        seen_lines = set()
        nviol = 0
        for o, k in matched:
            line = "KNOWN-FINDING: property=%s %s %s -- %s" % (prop, o.rule, o.key, (k.get("what") or o.what))
            if line not in seen_lines:
                print(line)
                seen_lines.add(line)
        if viol:
            os.makedirs(vdir, exist_ok=True)
        for n, (o, _) in enumerate(viol):
            nviol += 1
            path = os.path.join(vdir, "%d.json" % n)
            with open(path, "w") as f:
                json.dump({"property": prop, "rule": o.rule, "instance": o.key, "site": o.site,
                           "what": o.what, "trail": list(o.trail or ())}, f, indent=1)
            print("%s: %s [%s] %s%s" % (o.site, o.rule, o.key, o.what,
                                        (" trail=" + "->".join(map(str, o.trail))) if o.trail else ""))
            print("VIOLATION property=%s replay=%s" % (prop, path))

        obs = base.obs
        distinct = len({(o.rule, o.key) for o in obs if o.weight > 0})
        samples = [o.asdict() for o in obs[:6]] + [o.asdict() for o in failing[:6]]
        cov = {
            "explanation": getattr(propmod, "EXPLANATION", "") + " Static analysis of /repo/src working tree; "
                           "structural clauses only, the behaviour itself is not decided (DESIGN.md section 2.%s)." % prop,
            "rule": "one evaluation per rule instance (obligation) found in the current tree; distinct = distinct "
                    "(rule, construct) keys whose evaluation visited at least one path/site/row",
            "evaluations": len(obs),
            "distinct_nontrivial": distinct,
            "obligations": len(obs),
            "discharged": sum(1 for o in obs if o.ok),
            "failing_known": len(matched),
            "failing_new": len(viol),
            "paths_explored": base.paths,
            "call_sites_examined": base.sites,
            "table_rows_examined": base.rows,
            "functions_analysed": sorted(base.functions),
            "modules": {m: base.ix.modules[m].sha for m in sorted(base.modules) if m in base.ix.modules},
            "floors": {r: {"floor": n, "found": sum(1 for o in obs if o.rule == r)} for r, n in sorted(base.floors.items())},
            "rules": sorted({o.rule for o in obs}),
            "canaries" if tier == "quick" else "sensitivity": mres,
            "known_findings_matched": [{"rule": o.rule, "key": o.key} for o, _ in matched],
            "notes": base.notes,
            "analysis_errors": errors,
            "samples": samples,
            "exhaustive": True,
            "trusted_base": ["python ast/symtable parser", "hiolint engine (E2 resolution, E3 interpretation)",
                             "frozen idiom/raiser/receiver tables printed in DESIGN.md"],
        }
        cov.update(base.extra)
        write_evidence(cov, nviol, getattr(propmod, "ASSUMPTIONS", []))
        for e in errors:
            print("ANALYSIS-ERROR property=%s %s" % (prop, e))
        if not base.quiet:
            print("%s %s: %d obligations, %d hold, %d known findings, %d violations, %d functions, %.2fs"
                  % (prop, tier, len(obs), cov["discharged"], len(matched), nviol, len(base.functions), time.time() - t0))
            if tier == "thorough":
                for r in mres:
                    print("  mutant %-40s %s" % (r["mutant"], r["verdict"]))
        if nviol:
            return 1
        if errors:
            return 2
        return 0
    except Exception:
        print("ANALYSIS-ERROR property=%s internal error" % prop)
        traceback.print_exc(file=sys.stdout)
        try:
            write_evidence({"explanation": "internal error", "evaluations": 0, "distinct_nontrivial": 0,
                            "samples": []}, 0, [])
        except Exception:
            pass
        return 2
