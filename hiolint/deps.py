"""E4 - dependence sets by abstract interpretation (path-sensitive, per function).

State = (env, tags): env maps a local name (or a stored attribute 'self.x') to the
frozenset of *sources* its current value depends on; tags is a frozenset of
path-condition labels contributed by the rule's `tag(test, truth, deps)` hook.
Sources are strings: parameter / global names, dotted attribute reads
('self.tyme'), call results ('call:os.path.join'), constants are source-free.
"""
import ast

from .absint import Domain, NORMAL, RAISE
from .index import dotted


def fs(*xs):
    return frozenset(xs)


class DepDomain(Domain):
    track_attrs = True          # self.x stores enter the env

    def __init__(self, params=()):
        self.params = tuple(params)
        self.records = []       # (label, node, payload, state) appended by probes

    # ---- state helpers ----------------------------------------------------
    def initial(self):
        return (frozenset(), frozenset())

    @staticmethod
    def env_get(state, name):
        for k, v in state[0]:
            if k == name:
                return v
        return None

    @staticmethod
    def env_set(state, name, deps):
        env = frozenset((k, v) for k, v in state[0] if k != name) | {(name, frozenset(deps))}
        return (env, state[1])

    @staticmethod
    def add_tag(state, tag):
        return (state[0], state[1] | {tag})

    # ---- hooks for rules ----------------------------------------------------
    def call_source(self, call, state):
        """Return a set of sources for a call result, or None for the default."""
        return None

    def unpack_source(self, value, i, n, state):
        return None

    def tag(self, test, truth, state):
        """Return a tag (hashable) or None for this branch decision."""
        return None

    def probe(self, node, state):
        """Called on every Call event before it happens."""

    def raises(self, node, state):
        """Kinds the event may raise."""
        return ()

    # ---- dependence of expressions ------------------------------------------
    def deps(self, e, state):
        if e is None:
            return frozenset()
        if isinstance(e, tuple):            # pseudo values from the interpreter
            kind = e[0]
            if kind == "unpack":
                r = self.unpack_source(e[1], e[2], e[3], state)
                if r is not None:
                    return frozenset(r)
                if isinstance(e[1], tuple):
                    return self.deps(e[1], state)
                return frozenset(s + "[%d]" % e[2] for s in self.deps(e[1], state)) or frozenset()
            if kind == "aug":
                return self.deps(e[2], state) | self.deps(e[3], state)
            if kind == "iter":
                return frozenset(s + "[*]" for s in self.deps(e[1], state))
            if kind == "with":
                return self.deps(e[1], state)
            if kind == "exc":
                return fs("exc:" + str(e[1]))
            return frozenset()
        if isinstance(e, ast.Constant):
            return frozenset()
        if isinstance(e, ast.Name):
            v = self.env_get(state, e.id)
            return v if v is not None else fs(e.id)
        if isinstance(e, ast.Attribute):
            d = dotted(e)
            if d is not None:
                v = self.env_get(state, d)
                if v is not None:
                    return v
                base = d.split(".")[0]
                bv = self.env_get(state, base)
                if bv is not None:
                    rest = d[len(base):]
                    return frozenset(s + rest for s in bv) if bv else fs(d)
                return fs(d)
            return frozenset(s + "." + e.attr for s in self.deps(e.value, state))
        if isinstance(e, ast.Call):
            r = self.call_source(e, state)
            if r is not None:
                return frozenset(r)
            out = set()
            for a in e.args:
                out |= self.deps(a.value if isinstance(a, ast.Starred) else a, state)
            for k in e.keywords:
                out |= self.deps(k.value, state)
            if isinstance(e.func, ast.Attribute):
                out |= self.deps(e.func.value, state)
            name = dotted(e.func)
            if name and name.split(".")[-1] not in PURE:
                out.add("call:" + name)
            return frozenset(out)
        if isinstance(e, (ast.Lambda, ast.FunctionDef, ast.AsyncFunctionDef, ast.ClassDef)):
            return frozenset()
        if isinstance(e, (ast.ListComp, ast.SetComp, ast.GeneratorExp, ast.DictComp)):
            out = set()
            bound = set()
            for g in e.generators:
                out |= self.deps(g.iter, state)
                for n in ast.walk(g.target):
                    if isinstance(n, ast.Name):
                        bound.add(n.id)
                for c in g.ifs:
                    out |= self.deps(c, state)
            parts = [e.key, e.value] if isinstance(e, ast.DictComp) else [e.elt]
            for p in parts:
                out |= self.deps(p, state)
            return frozenset(s for s in out if s.split(".")[0].split("[")[0] not in bound)
        out = set()
        for c in ast.iter_child_nodes(e):
            if isinstance(c, ast.expr):
                out |= self.deps(c, state)
            elif isinstance(c, (ast.keyword,)):
                out |= self.deps(c.value, state)
            elif isinstance(c, ast.Slice):
                for p in (c.lower, c.upper, c.step):
                    out |= self.deps(p, state)
        return frozenset(out)

    # ---- Domain interface ---------------------------------------------------
    def on_event(self, node, state):
        if isinstance(node, ast.Call):
            self.probe(node, state)
            # container mutators make the receiver depend on what is put into it
            if isinstance(node.func, ast.Attribute) and node.func.attr in CONTAINER_MUTATORS and isinstance(node.func.value, ast.Name):
                name = node.func.value.id
                cur = self.env_get(state, name)
                add = frozenset()
                for a in node.args:
                    add |= self.deps(a, state)
                state = self.env_set(state, name, (cur if cur is not None else frozenset()) | add)
        yield state, NORMAL
        for k in self.raises(node, state):
            yield state, RAISE(k)

    def on_store(self, target, value, state, stmt):
        d = self.deps(value, state)
        if isinstance(target, ast.Name):
            return self.env_set(state, target.id, d)
        if isinstance(target, ast.Attribute) and self.track_attrs:
            dn = dotted(target)
            if dn:
                return self.env_set(state, dn, d)
        return state

    def assume(self, test, truth, state):
        if isinstance(test, ast.Constant):
            return state if bool(test.value) == truth else None
        if isinstance(test, ast.UnaryOp) and isinstance(test.op, ast.Not):
            return self.assume(test.operand, not truth, state)
        if isinstance(test, ast.BoolOp):
            conj = isinstance(test.op, ast.And)
            if conj == truth:       # all operands have the same truth
                for v in test.values:
                    state = self.assume(v, truth, state)
                    if state is None:
                        return None
                return state
            t = self.tag(test, truth, state)
            return self.add_tag(state, t) if t is not None else state
        t = self.tag(test, truth, state)
        return self.add_tag(state, t) if t is not None else state


CONTAINER_MUTATORS = {"append", "appendleft", "extend", "extendleft", "add", "update", "insert"}
PURE = {"abs", "float", "int", "max", "min", "len", "list", "tuple", "deque", "dict", "set", "bool",
        "str", "bytes", "bytearray", "sorted", "reversed", "enumerate", "zip", "range", "isinstance",
        "hasattr", "getattr", "format", "join", "round", "sum", "frozenset"}
