"""Call expansion for *new* call edges (extract-method refactorings).

The rules of this analyser anchor on the functions that exist in hio today and on what those functions contain.  A pure
refactoring that moves part of an anchored function into a new helper (or replaces a duplicated body by a `super()` call) leaves
behaviour unchanged but would hide the moved statements from every rule.  Before any rule runs, every call in an indexed function
whose (caller, callee name) edge is not in the frozen table `baseline_calls.json` (the call graph of the tree the rules were written
for) and whose callee is a small, non-generator function defined in hio is therefore expanded in place:

  * statement level  `helper(a)` / `x = helper(a)` / `return helper(a)`   -> the helper's body, parameters substituted,
    early returns converted to single-exit if/else form, result assigned / returned;
  * expression level, for helpers that are a single `return <expr>`        -> the expression, parameters substituted;
  * `self.CONST` / `Class.CONST` reads of a class-level tuple/list/set literal that is not in the table -> the literal.

Nothing is executed.  Whenever a call site or callee falls outside what is handled (generators, *args, returns inside loops or
try blocks, recursion, more than MAXSTMTS statements) the call is left as it is - the rules then see a call to an unknown helper and
report what they report today.  Expansion depth is bounded (DEPTH)."""
import ast
import copy
import json
import os

from .index import dotted, walk_local
from .loader import _clone

HERE = os.path.dirname(os.path.abspath(__file__))
TABLE = os.path.join(HERE, "baseline_calls.json")
DEPTH = 3
MAXSTMTS = 40


def call_name(call):
    """name under which a call edge is recorded: attribute name of a method call, plain name of a function call"""
    f = call.func
    if isinstance(f, ast.Attribute):
        recv = f.value
        if isinstance(recv, ast.Call) and dotted(recv.func) == "super":
            return "super." + f.attr
        d = dotted(recv)
        if d and (d == "self" or d.startswith("self.")):
            return d + "." + f.attr          # receivers rooted at self are part of the edge; local receivers are not (renames)
        return "." + f.attr
    if isinstance(f, ast.Name):
        return f.id
    return None


def edges_of(fnode):
    out = set()
    for n in walk_local(fnode):
        if isinstance(n, ast.Call):
            nm = call_name(n)
            if nm:
                out.add(nm)
    return out


def build_table(ix):
    calls = {}
    consts = {}
    for fq, f in ix.functions.items():
        if fq.endswith("@setter"):
            continue
        calls[fq] = sorted(edges_of(f.node))
    for cfq, c in ix.classes.items():
        consts[cfq] = sorted(c.assigns)
    return {"calls": calls, "class_assigns": consts}


def load_table():
    try:
        with open(TABLE) as fh:
            return json.load(fh)
    except (OSError, ValueError):
        return None


# ------------------------------------------------------------------ helpers
class _Subst(ast.NodeTransformer):
    def __init__(self, mapping):
        self.m = mapping

    def visit_Name(self, n):
        if n.id in self.m:
            r = self.m[n.id]
            if isinstance(r, str):
                return ast.copy_location(ast.Name(id=r, ctx=n.ctx), n)
            if isinstance(n.ctx, ast.Load):
                return ast.copy_location(_clone(r), n)
        return n


def _pure(e):
    if isinstance(e, (ast.Name, ast.Constant)):
        return True
    if isinstance(e, ast.Attribute):
        return _pure(e.value)
    if isinstance(e, ast.Subscript):
        return _pure(e.value) and _pure(e.slice)
    if isinstance(e, ast.Call) and isinstance(e.func, ast.Name) and e.func.id == "len" and len(e.args) == 1 and not e.keywords:
        return _pure(e.args[0])         # len() of a local / attribute has no side effect
    if isinstance(e, ast.BinOp):
        return _pure(e.left) and _pure(e.right)
    if isinstance(e, ast.UnaryOp) and isinstance(e.operand, ast.Constant):
        return True
    return False


def _body_without_doc(fnode):
    body = list(fnode.body)
    if body and isinstance(body[0], ast.Expr) and isinstance(body[0].value, ast.Constant) and isinstance(body[0].value.value, str):
        body = body[1:]
    return body


def _has_yield(fnode):
    return any(isinstance(n, (ast.Yield, ast.YieldFrom, ast.Await)) for n in walk_local(fnode))


def _returns_nested_badly(stmts):
    """returns inside loops (or inside a finally block) are not converted to single-exit form"""
    for st in stmts:
        for n in ast.walk(st):
            if isinstance(n, (ast.For, ast.While, ast.AsyncFor, ast.AsyncWith)):
                if any(isinstance(x, ast.Return) for x in ast.walk(n)):
                    return True
            if isinstance(n, ast.Try) and any(isinstance(x, ast.Return) for b in n.finalbody for x in ast.walk(b)):
                return True
    return False


def _flag_returns(block, rv, flag):
    """inside a try / with: `return e` -> `rv = e; flag = True` (the statements after it in the same block are skipped by nesting
    them under `if not flag`).  Returns the rewritten block."""
    out = []
    for i, st in enumerate(block):
        rest = block[i + 1:]
        if isinstance(st, ast.Return):
            val = st.value if st.value is not None else ast.Constant(value=None)
            out.append(ast.copy_location(ast.Assign(targets=[ast.Name(id=rv, ctx=ast.Store())], value=val), st))
            out.append(ast.copy_location(ast.Assign(targets=[ast.Name(id=flag, ctx=ast.Store())], value=ast.Constant(value=True)), st))
            return out
        if any(isinstance(x, ast.Return) for x in ast.walk(st)):
            if isinstance(st, ast.If):
                st.body = _flag_returns(st.body, rv, flag)
                st.orelse = _flag_returns(st.orelse, rv, flag) if st.orelse else []
            elif isinstance(st, ast.Try):
                st.body = _flag_returns(st.body, rv, flag)
                for h in st.handlers:
                    h.body = _flag_returns(h.body, rv, flag)
                st.orelse = _flag_returns(st.orelse, rv, flag) if st.orelse else []
            elif isinstance(st, ast.With):
                st.body = _flag_returns(st.body, rv, flag)
            out.append(st)
            if rest:
                guard = ast.If(test=ast.UnaryOp(op=ast.Not(), operand=ast.Name(id=flag, ctx=ast.Load())), body=_flag_returns(rest, rv, flag), orelse=[])
                out.append(ast.copy_location(guard, rest[0]))
            return out
        out.append(st)
    return out


def _single_exit(stmts, rv):
    """rewrite a statement list so that every `return e` becomes `rv = e` and nothing after it runs (if/else nesting).
    Returns (new statements, always_returns)."""
    out = []
    for i, st in enumerate(stmts):
        rest = stmts[i + 1:]
        if isinstance(st, ast.Return):
            val = st.value if st.value is not None else ast.Constant(value=None)
            out.append(ast.copy_location(ast.Assign(targets=[ast.Name(id=rv, ctx=ast.Store())], value=val), st))
            return out, True
        if isinstance(st, ast.If) and any(isinstance(x, ast.Return) for x in ast.walk(st)):
            b, br = _single_exit(st.body, rv)
            o, orr = _single_exit(st.orelse, rv) if st.orelse else ([], False)
            rb, rbr = _single_exit(rest, rv)
            if not br:
                b = b + _clone(rb)
            if not orr:
                o = o + rb
            new = ast.copy_location(ast.If(test=st.test, body=b or [ast.Pass()], orelse=o), st)
            out.append(new)
            return out, (br or rbr) and (orr or rbr)
        out.append(st)
    return out, False


def _returns_are_tails(block):
    """every return is the last statement of its block and nothing follows the if/else that contains it (single-exit shape)"""
    for i, st in enumerate(block):
        last = i == len(block) - 1
        if isinstance(st, ast.Return):
            if not last:
                return False
        elif isinstance(st, ast.If):
            has = any(isinstance(x, ast.Return) for x in ast.walk(st))
            if has and not last:
                return False
            if has and not (_returns_are_tails(st.body) and _returns_are_tails(st.orelse)):
                return False
        elif any(isinstance(x, ast.Return) for x in ast.walk(st)):
            return False
    return True


def _bool_context(t):
    """in a test only truthiness matters: `X if C else False` is `C and X`, `True if C else Y` is `C or Y` (also under not / and / or)"""
    if isinstance(t, ast.UnaryOp) and isinstance(t.op, ast.Not):
        t.operand = _bool_context(t.operand)
        return t
    if isinstance(t, ast.BoolOp):
        t.values = [_bool_context(v) for v in t.values]
        return t
    if isinstance(t, ast.IfExp):
        if isinstance(t.orelse, ast.Constant) and t.orelse.value is False:
            return ast.copy_location(ast.BoolOp(op=ast.And(), values=[t.test, _bool_context(t.body)]), t)
        if isinstance(t.body, ast.Constant) and t.body.value is True:
            return ast.copy_location(ast.BoolOp(op=ast.Or(), values=[t.test, _bool_context(t.orelse)]), t)
    return t


class Inliner:
    def __init__(self, ix, table):
        self.ix = ix
        self.known_calls = table["calls"]
        self.known_assigns = table.get("class_assigns", {})
        self.count = 0
        self.sites = []

    # -------------------------------------------------------------- resolution
    def resolve(self, f, call):
        fn = call.func
        ix = self.ix
        if isinstance(fn, ast.Attribute):
            recv = fn.value
            if isinstance(recv, ast.Name) and recv.id == "self" and f.cls is not None:
                g = ix.resolve_method(f.cls, fn.attr)
                return (g, "self") if g is not None else None
            if isinstance(recv, ast.Call) and dotted(recv.func) == "super" and f.cls is not None:
                g = ix.resolve_method(f.cls, fn.attr, after=f.cls)
                return (g, "self") if g is not None else None
            d = dotted(recv)
            if d and f.cls is not None and d == f.cls.name:
                g = ix.resolve_method(f.cls, fn.attr)
                return (g, "class") if g is not None else None
            return None
        if isinstance(fn, ast.Name):
            t = ix.toplevel.get(f.module.name, {}).get(fn.id)
            if t is not None and hasattr(t, "node") and isinstance(t.node, (ast.FunctionDef,)):
                return (t, "plain")
        return None

    def eligible(self, g):
        if g is None or not isinstance(g.node, ast.FunctionDef):
            return False
        if g.is_property or g.is_setter or _has_yield(g.node):
            return False
        a = g.node.args
        if a.vararg or a.kwarg or a.posonlyargs:
            return False
        body = _body_without_doc(g.node)
        if sum(1 for _ in ast.walk(ast.Module(body=body, type_ignores=[]))) > 60 * MAXSTMTS or len(body) > MAXSTMTS:
            return False
        if any(isinstance(n, (ast.FunctionDef, ast.AsyncFunctionDef, ast.ClassDef, ast.Lambda, ast.Global, ast.Nonlocal)) for st in body for n in ast.walk(st)):
            return False
        if _returns_nested_badly(body):
            return False
        return True

    def bind(self, g, how, call):
        """{param: Name-or-expression} or None"""
        a = g.node.args
        params = [x.arg for x in a.args]
        static = any((dotted(d) or "") in ("staticmethod",) for d in g.node.decorator_list)
        classm = any((dotted(d) or "") in ("classmethod",) for d in g.node.decorator_list)
        m = {}
        if g.cls is not None and not static:
            if not params:
                return None
            first = params.pop(0)
            if how == "self" and not classm:
                m[first] = "self"
            else:
                return None
        if any(isinstance(x, ast.Starred) for x in call.args) or any(k.arg is None for k in call.keywords):
            return None
        if len(call.args) > len(params):
            return None
        for p, v in zip(params, call.args):
            m[p] = v
        kw = {k.arg: k.value for k in call.keywords}
        kwonly = [x.arg for x in a.kwonlyargs]
        for k, v in kw.items():
            if k not in params and k not in kwonly or k in m:
                return None
            m[k] = v
        defaults = dict(zip(params[len(params) - len(a.defaults):], a.defaults)) if a.defaults else {}
        defaults.update({x.arg: d for x, d in zip(a.kwonlyargs, a.kw_defaults) if d is not None})
        for p in params + kwonly:
            if p not in m:
                if p in defaults and isinstance(defaults[p], ast.Constant):
                    m[p] = defaults[p]
                else:
                    return None
        return m

    # -------------------------------------------------------------- expansion
    def expand_body(self, f, g, how, call, uniq):
        """(pre statements, result expression or None) for one call, or None"""
        m = self.bind(g, how, call)
        if m is None:
            return None
        body = _clone(_body_without_doc(g.node))
        pre = []
        sub = {}
        stored = {n.id for st in body for n in ast.walk(st) if isinstance(n, ast.Name) and isinstance(n.ctx, (ast.Store, ast.Del))}
        for p, v in m.items():
            if isinstance(v, str):
                sub[p] = v
            elif _pure(v) and p not in stored:
                sub[p] = v
            elif isinstance(v, ast.Name):
                sub[p] = v.id if p not in stored else None
                if sub[p] is None:
                    tmp = "%s__%s" % (p, uniq)
                    pre.append(ast.Assign(targets=[ast.Name(id=tmp, ctx=ast.Store())], value=_clone(v)))
                    sub[p] = tmp
            else:
                tmp = "%s__%s" % (p, uniq)
                pre.append(ast.Assign(targets=[ast.Name(id=tmp, ctx=ast.Store())], value=_clone(v)))
                sub[p] = tmp
        caller_names = {n.id for n in ast.walk(f.node) if isinstance(n, ast.Name)}
        for loc in sorted(stored - set(m)):
            if loc in caller_names:
                sub[loc] = "%s__%s" % (loc, uniq)
        rv = "ret__%s" % uniq
        rets = [n for st in body for n in ast.walk(st) if isinstance(n, ast.Return)]
        result = None
        if len(rets) == 1 and body and body[-1] is rets[0]:
            result = rets[0].value
            body = body[:-1]
        elif rets and any(isinstance(x, ast.Return) for st in body for t in ast.walk(st) if isinstance(t, (ast.Try, ast.With)) for x in ast.walk(t)):
            flag = "done__%s" % uniq
            body = [ast.Assign(targets=[ast.Name(id=rv, ctx=ast.Store())], value=ast.Constant(value=None)),
                    ast.Assign(targets=[ast.Name(id=flag, ctx=ast.Store())], value=ast.Constant(value=False))] + _flag_returns(body, rv, flag)
            result = ast.Name(id=rv, ctx=ast.Load())
        elif rets:
            body, always = _single_exit(body, rv)
            if not always:
                body = [ast.Assign(targets=[ast.Name(id=rv, ctx=ast.Store())], value=ast.Constant(value=None))] + body
            result = ast.Name(id=rv, ctx=ast.Load())
        s = _Subst(sub)
        body = [s.visit(st) for st in body]
        if result is not None:
            result = s.visit(_clone(result))
        for st in pre + body:
            for n in ast.walk(st):
                if not hasattr(n, "lineno"):
                    n.lineno = getattr(call, "lineno", 1)
                    n.col_offset = 0
                    n.end_lineno = n.lineno
                    n.end_col_offset = 0
        return pre + body, result

    def new_edge(self, f, call):
        known = self.known_calls.get(f.fq)
        if known is None:
            return False            # the caller itself is new: it is expanded into its callers
        nm = call_name(call)
        return nm is not None and nm not in known

    def expand_block(self, f, stmts, depth, stack):
        out = []
        changed = False
        for st in stmts:
            # recurse into compound statements first
            for fld in ("body", "orelse", "finalbody"):
                blk = getattr(st, fld, None)
                if isinstance(blk, list) and blk and isinstance(blk[0], ast.stmt):
                    nb, ch = self.expand_block(f, blk, depth, stack)
                    if ch:
                        setattr(st, fld, nb)
                        changed = True
            if isinstance(st, ast.Try):
                for h in st.handlers:
                    nb, ch = self.expand_block(f, h.body, depth, stack)
                    if ch:
                        h.body = nb
                        changed = True
            # `if helper(...): <jump>` where the helper returns only True / False: its `return True` is the jump, `return False` falls through
            if isinstance(st, ast.If) and not st.orelse and len(st.body) == 1 and isinstance(st.body[0], (ast.Break, ast.Continue, ast.Return)) \
                    and depth < DEPTH:
                t, want = st.test, True
                if isinstance(t, ast.UnaryOp) and isinstance(t.op, ast.Not):
                    t, want = t.operand, False
                if isinstance(t, ast.Call) and self.new_edge(f, t):
                    r = self.resolve(f, t)
                    if r is not None and self.eligible(r[0]) and r[0].fq not in stack:
                        g, how = r
                        m = self.bind(g, how, t)
                        hb = _clone(_body_without_doc(g.node))
                        rets = [n for x in hb for n in ast.walk(x) if isinstance(n, ast.Return)]
                        if m is not None and rets and all(isinstance(rr.value, ast.Constant) and isinstance(rr.value.value, bool) for rr in rets) \
                                and all(isinstance(v, str) or _pure(v) for v in m.values()) and _returns_are_tails(hb):
                            jump = st.body[0]

                            class RJ(ast.NodeTransformer):
                                def visit_Return(self, n):
                                    return _clone(jump) if n.value.value is want else ast.copy_location(ast.Pass(), n)
                            hb = [RJ().visit(_Subst(m).visit(x)) for x in hb]
                            for x in hb:
                                ast.fix_missing_locations(x)
                            hb, _ = self.expand_block(f, hb, depth + 1, stack | {g.fq})
                            out.extend(hb)
                            self.sites.append((f.fq, g.fq, getattr(st, "lineno", 0)))
                            changed = True
                            continue
            call = None
            if isinstance(st, ast.Expr) and isinstance(st.value, ast.Call):
                call = st.value
            elif isinstance(st, (ast.Assign, ast.Return)) and isinstance(st.value, ast.Call):
                call = st.value
            done = False
            if call is not None and self.new_edge(f, call):
                r = self.resolve(f, call)
                if r is not None and self.eligible(r[0]) and r[0].fq not in stack and depth < DEPTH:
                    g, how = r
                    self.count += 1
                    exp = self.expand_body(f, g, how, call, "i%d" % self.count)
                    if exp is not None:
                        body, result = exp
                        body, _ = self.expand_block(f, body, depth + 1, stack | {g.fq})
                        if isinstance(st, ast.Expr):
                            tail = []
                        elif isinstance(st, ast.Assign):
                            tail = [ast.copy_location(ast.Assign(targets=st.targets, value=result if result is not None else ast.Constant(value=None)), st)]
                        else:
                            tail = [ast.copy_location(ast.Return(value=result), st)]
                        for t in tail:
                            ast.fix_missing_locations(t)
                        out.extend(body + tail)
                        self.sites.append((f.fq, g.fq, getattr(st, "lineno", 0)))
                        changed = done = True
            if not done:
                ch = self.expand_exprs(f, st, depth, stack)
                changed = changed or ch
                out.append(st)
        return out, changed

    def expand_exprs(self, f, st, depth, stack):
        """expression-level expansion of pure single-return helpers and of new class constants inside one statement (header only)"""
        changed = False
        me = self

        class T(ast.NodeTransformer):
            def generic_visit(self, node):
                # do not descend into nested statement blocks: they are handled by expand_block
                for field, old in ast.iter_fields(node):
                    if isinstance(old, list):
                        if old and isinstance(old[0], ast.stmt):
                            continue
                        new = []
                        for v in old:
                            if isinstance(v, ast.AST):
                                v = self.visit(v)
                            new.append(v)
                        old[:] = new
                    elif isinstance(old, ast.AST):
                        setattr(node, field, self.visit(old))
                return node

            def visit_Call(self, node):
                nonlocal changed
                self.generic_visit(node)
                if me.new_edge(f, node) and depth < DEPTH:
                    r = me.resolve(f, node)
                    if r is not None and me.eligible(r[0]) and r[0].fq not in stack:
                        g, how = r
                        body = _body_without_doc(g.node)
                        # `if C: return A` / `return B` (the loader nests it as if/else) is the expression `A if C else B`
                        if len(body) == 1 and isinstance(body[0], ast.If) and len(body[0].body) == 1 and len(body[0].orelse) == 1 \
                                and isinstance(body[0].body[0], ast.Return) and isinstance(body[0].orelse[0], ast.Return) \
                                and body[0].body[0].value is not None and body[0].orelse[0].value is not None:
                            i_ = body[0]
                            body = [ast.Return(value=ast.IfExp(test=i_.test, body=i_.body[0].value, orelse=i_.orelse[0].value))]
                        if len(body) == 1 and isinstance(body[0], ast.Return) and body[0].value is not None:
                            m = me.bind(g, how, node)
                            if m is not None and all(isinstance(v, str) or _pure(v) for v in m.values()):
                                e = _Subst(m).visit(_clone(body[0].value))
                                me.sites.append((f.fq, g.fq, getattr(node, "lineno", 0)))
                                changed = True
                                return ast.copy_location(e, node)
                return node

            def visit_Attribute(self, node):
                nonlocal changed
                self.generic_visit(node)
                if isinstance(node.ctx, ast.Load) and f.cls is not None and isinstance(node.value, ast.Name) and \
                        (node.value.id == "self" or node.value.id in {k.name for k in f.cls.mro if hasattr(k, "name")}):
                    for k in f.cls.mro:
                        if not hasattr(k, "assigns"):
                            continue
                        v = k.assigns.get(node.attr)
                        if v is not None:
                            if node.attr not in me.known_assigns.get(k.fq, [node.attr]) and isinstance(v, (ast.Tuple, ast.List, ast.Set)) \
                                    and all(_pure(e) for e in v.elts):
                                changed = True
                                return ast.copy_location(_clone(v), node)
                            break
                return node
        T().visit(st)
        if changed and isinstance(st, (ast.If, ast.While)):
            st.test = _bool_context(st.test)
        return changed


def apply(ix):
    table = load_table()
    if table is None:
        return []
    inl = Inliner(ix, table)
    touched = []
    for fq, f in list(ix.functions.items()):
        if fq.endswith("@setter") or fq not in inl.known_calls or not isinstance(f.node, (ast.FunctionDef, ast.AsyncFunctionDef)):
            continue
        if f.outer is not None:
            continue
        body, changed = inl.expand_block(f, f.node.body, 0, frozenset({f.fq}))
        if changed:
            f.node.body = body
            ast.fix_missing_locations(f.node)
            for node in ast.walk(f.node):
                for child in ast.iter_child_nodes(node):
                    child._parent = node
            touched.append(fq)
    ix.inlined_sites = inl.sites
    return touched
