import importlib
import sys

from .core import main_check


def main(argv):
    if not argv:
        print("usage: check Cxx [--tier quick|thorough] [--replay path]")
        return 2
    name = argv[0].lower()
    try:
        mod = importlib.import_module("hiolint.props." + name)
    except ModuleNotFoundError:
        print("ANALYSIS-ERROR property=%s no such check" % argv[0])
        return 2
    return main_check(name, mod, argv[1:])


if __name__ == "__main__":
    sys.exit(main(sys.argv[1:]))
