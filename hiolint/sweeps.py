"""Thorough-tier cross-reference sweeps over the whole package (never change a verdict; listed in the evidence)."""
import ast

from .index import walk_local, dotted, ClassInfo
from .names import unbound_names, definite_unbound_locals
from .kwbind import bind_keywords


def unbound_sweep(run):
    out = []
    seen = set()
    for fq, f in sorted(run.ix.functions.items()):
        if f in seen:
            continue
        seen.add(f)
        for name, node in unbound_names(run.ix, f):
            out.append("%s: `%s` bound nowhere (line %d)" % (f.fq, name, node.lineno))
        try:
            for name, node in definite_unbound_locals(run, f):
                out.append("%s: `%s` read before assignment on every path (line %d)" % (f.fq, name, node.lineno))
            for name, node in definite_unbound_locals(run, f, may=True):
                out.append("%s: `%s` may be read before assignment (line %d; path feasibility not decided)" % (f.fq, name, node.lineno))
        except Exception as ex:       # pragma: no cover
            out.append("%s: not analysed (%s)" % (f.fq, ex))
    return sorted(set(out))


def swallowed_keyword_sweep(run):
    """Calls of repo classes whose keyword is accepted by no named parameter along the __init__ chain."""
    ix = run.ix
    out = []
    seen = set()
    for fq, f in sorted(ix.functions.items()):
        if f in seen:
            continue
        seen.add(f)
        for n in walk_local(f.node):
            if isinstance(n, ast.Call) and n.keywords:
                k = ix.callee_class(f, n)
                if not isinstance(k, ClassInfo):
                    continue
                if any("dataclass" in ast.unparse(d) for c in k.mro for d in c.node.decorator_list):
                    continue        # dataclasses synthesise __init__ from their fields
                kws = [kw.arg for kw in n.keywords if kw.arg]
                try:
                    binding, chain = bind_keywords(ix, k, kws)
                except Exception:
                    continue
                for a, (kind, where) in sorted(binding.items()):
                    if kind != "named":
                        out.append("%s line %d: %s(%s=...) is %s by %s" % (f.fq, n.lineno, k.name, a, kind, where))
    return out
