"""E3 - syntax-directed abstract interpreter over a rule-supplied finite domain.

    Interp(domain, lattice).run(fnode)  ->  {(state, outcome): trail}

outcomes:  NORMAL, ('return',), ('raise', kind), ('break',), ('continue',)
A domain decides what every *event* does to its state and which exceptions the
event may raise.  Loops are solved by fixpoint over the set of head states;
try/except/else/finally is interpreted structurally (finally re-run for every
pending outcome; handlers matched through the exception lattice; a handler for
a strict subclass of the raised kind forks into caught / not caught).
"""
import ast

from .loader import AnalysisError
from .index import dotted

NORMAL = ("normal",)
RETURN = ("return",)
BREAK = ("break",)
CONTINUE = ("continue",)
MAX_STATES = 60000
TRAIL_CAP = 80


def RAISE(kind):
    return ("raise", kind)


def is_raise(oc):
    return oc[0] == "raise"


def events_of(expr):
    """Sub-expressions with effects, in (approximate) evaluation order:
    Call, Yield, YieldFrom, Await nodes -- children first.  Nested lambdas are
    opaque; comprehension bodies are included (evaluated zero or more times)."""
    out = []

    def rec(n):
        if n is None or isinstance(n, ast.Lambda):
            return
        if isinstance(n, ast.Call):
            rec(n.func)
            for a in n.args:
                rec(a)
            for k in n.keywords:
                rec(k.value)
            out.append(n)
            return
        if isinstance(n, (ast.Yield, ast.YieldFrom, ast.Await)):
            rec(n.value)
            out.append(n)
            return
        if isinstance(n, (ast.ListComp, ast.SetComp, ast.GeneratorExp, ast.DictComp)):
            for g in n.generators:
                rec(g.iter)
                for c in g.ifs:
                    rec(c)
            if isinstance(n, ast.DictComp):
                rec(n.key)
                rec(n.value)
            else:
                rec(n.elt)
            return
        for c in ast.iter_child_nodes(n):
            if isinstance(c, ast.expr) or isinstance(c, (ast.keyword, ast.comprehension, ast.Starred)):
                rec(c)
    rec(expr)
    return out


class Domain:
    """Base domain: no state, nothing raises.  Override what the rule needs."""

    def initial(self):
        return ()

    # --- events -----------------------------------------------------------
    def on_event(self, node, state):
        """node: Call | Yield | YieldFrom | Await.  Yield (state, outcome) pairs;
        outcome NORMAL or RAISE(kind)."""
        yield state, NORMAL

    def on_store(self, target, value, state, stmt):
        """Assignment of `value` (may be None: loop/with/except binding) to target."""
        return state

    def on_delete(self, target, state, stmt):
        return state

    def on_stmt(self, stmt, state):
        """Called before a simple statement's events (hook; may return new state)."""
        return state

    def after_stmt(self, stmt, state):
        return state

    def on_return(self, stmt, state):
        return state

    def on_exit(self, state, outcome):
        """Called for every outcome leaving the function (hook)."""
        return state

    # --- control ----------------------------------------------------------
    def assume(self, test, truth, state):
        """Refine on `test` being truth; None if infeasible."""
        if isinstance(test, ast.Constant):
            return state if bool(test.value) == truth else None
        return state

    def for_next(self, node, state):
        """(state if another item may come | None, state if exhausted may happen | None)"""
        return state, state

    def on_handler(self, handler, kind, state):
        """Entering an except handler having caught `kind`."""
        return state

    def raise_kind(self, stmt, state, current):
        """Kinds raised by a `raise` statement."""
        exc = stmt.exc
        if exc is None:
            return [current or "Exception"]
        if isinstance(exc, ast.Call):
            exc = exc.func
        d = dotted(exc)
        if d is None:
            return ["Exception"]
        bound = getattr(self, "_bound_exc", {})
        if d in bound:
            return [bound[d]]
        return [d]


class Interp:
    def __init__(self, domain, lattice, record=False):
        self.dom = domain
        self.lat = lattice
        self.nstates = 0
        self.record = record
        self.reach = {}       # stmt node -> {state: trail}  (pre-states), if record
        self.unsupported = []

    # -------------------------------------------------------------- driver
    def run(self, fnode, init=None):
        init = self.dom.initial() if init is None else init
        res = self.block(fnode.body, {init: ()}, None)
        out = {}
        for (st, oc), tr in res.items():
            if oc == NORMAL:
                oc = RETURN
            st2 = self.dom.on_exit(st, oc)
            self._put(out, (st2, oc), tr)
        return out

    # ------------------------------------------------------------- helpers
    def _put(self, d, key, trail):
        old = d.get(key)
        if old is None:
            self.nstates += 1
            if self.nstates > MAX_STATES:
                raise AnalysisError("abstract interpretation exceeded %d states" % MAX_STATES)
            d[key] = trail
        elif len(trail) < len(old):
            d[key] = trail

    @staticmethod
    def _ext(trail, node):
        ln = getattr(node, "lineno", None)
        if ln is None or (trail and trail[-1] == ln):
            return trail
        if len(trail) >= TRAIL_CAP:
            return trail[:TRAIL_CAP // 2] + (-1,) + trail[-(TRAIL_CAP // 2 - 2):] + (ln,)
        return trail + (ln,)

    def _events(self, nodes, states, out):
        """Run events of expression nodes in order over {state: trail}; raise
        outcomes go to `out`; returns {state: trail} after all events."""
        cur = states
        for ev in nodes:
            nxt = {}
            for st, tr in cur.items():
                tr2 = self._ext(tr, ev)
                for st2, oc in self.dom.on_event(ev, st):
                    if oc == NORMAL:
                        self._put(nxt, st2, tr2)
                    else:
                        self._put(out, (st2, oc), tr2)
            cur = nxt
            if not cur:
                break
        return cur

    def eval(self, expr, states, out):
        if expr is None:
            return states
        return self._events(events_of(expr), states, out)

    # --------------------------------------------------------------- block
    def block(self, stmts, states, cur_exc):
        """states: {state: trail} -> {(state, outcome): trail}"""
        out = {}
        cur = dict(states)
        for st in stmts:
            if not cur:
                break
            res = self.stmt(st, cur, cur_exc)
            cur = {}
            for (s, oc), tr in res.items():
                if oc == NORMAL:
                    self._put(cur, s, tr)
                else:
                    self._put(out, (s, oc), tr)
        for s, tr in cur.items():
            self._put(out, (s, NORMAL), tr)
        return out

    def stmt(self, node, states, cur_exc):
        if self.record:
            d = self.reach.setdefault(node, {})
            for s, tr in states.items():
                if s not in d:
                    d[s] = tr
        states = {s: self._ext(tr, node) for s, tr in states.items()}
        m = getattr(self, "s_" + type(node).__name__, None)
        if m is None:
            raise AnalysisError("unsupported statement %s at line %s" % (type(node).__name__, getattr(node, "lineno", "?")))
        return m(node, states, cur_exc)

    # ---------------------------------------------------- simple statements
    def _simple(self, node, states, exprs, post=None):
        out = {}
        pre = {}
        for s, tr in states.items():
            self._put(pre, self.dom.on_stmt(node, s), tr)
        cur = pre
        for e in exprs:
            cur = self.eval(e, cur, out)
        for s, tr in cur.items():
            if post is not None:
                s = post(s)
            s = self.dom.after_stmt(node, s)
            self._put(out, (s, NORMAL), tr)
        return out

    def s_Expr(self, node, states, cur_exc):
        return self._simple(node, states, [node.value])

    def s_Assign(self, node, states, cur_exc):
        def post(s):
            for t in node.targets:
                s = self._store(t, node.value, s, node)
            return s
        tex = [t for t in node.targets if not isinstance(t, ast.Name)]
        return self._simple(node, states, [node.value] + tex, post)

    def _store(self, target, value, s, stmt):
        if isinstance(target, (ast.Tuple, ast.List)):
            if isinstance(value, (ast.Tuple, ast.List)) and len(value.elts) == len(target.elts) \
                    and not any(isinstance(e, ast.Starred) for e in target.elts + value.elts):
                for t, v in zip(target.elts, value.elts):
                    s = self._store(t, v, s, stmt)
                return s
            for i, t in enumerate(target.elts):
                s = self._store(t, ("unpack", value, i, len(target.elts)), s, stmt)
            return s
        if isinstance(target, ast.Starred):
            return self._store(target.value, value, s, stmt)
        return self.dom.on_store(target, value, s, stmt)

    def s_AugAssign(self, node, states, cur_exc):
        def post(s):
            return self.dom.on_store(node.target, ("aug", node.op, node.target, node.value), s, node)
        return self._simple(node, states, [node.value] + ([node.target] if not isinstance(node.target, ast.Name) else []), post)

    def s_AnnAssign(self, node, states, cur_exc):
        if node.value is None:
            return {(s, NORMAL): tr for s, tr in states.items()}

        def post(s):
            return self._store(node.target, node.value, s, node)
        return self._simple(node, states, [node.value], post)

    def s_Delete(self, node, states, cur_exc):
        def post(s):
            for t in node.targets:
                s = self.dom.on_delete(t, s, node)
            return s
        return self._simple(node, states, list(node.targets), post)

    def s_Pass(self, node, states, cur_exc):
        return {(s, NORMAL): tr for s, tr in states.items()}

    s_Import = s_ImportFrom = s_Global = s_Nonlocal = s_Pass

    def s_FunctionDef(self, node, states, cur_exc):
        return {(self.dom.on_store(ast.Name(id=node.name, ctx=ast.Store()), node, s, node), NORMAL): tr
                for s, tr in states.items()}

    s_AsyncFunctionDef = s_ClassDef = s_FunctionDef

    def s_Break(self, node, states, cur_exc):
        return {(s, BREAK): tr for s, tr in states.items()}

    def s_Continue(self, node, states, cur_exc):
        return {(s, CONTINUE): tr for s, tr in states.items()}

    def s_Return(self, node, states, cur_exc):
        out = {}
        cur = {}
        for s, tr in states.items():
            self._put(cur, self.dom.on_stmt(node, s), tr)
        cur = self.eval(node.value, cur, out)
        for s, tr in cur.items():
            self._put(out, (self.dom.on_return(node, s), RETURN), tr)
        return out

    def s_Raise(self, node, states, cur_exc):
        out = {}
        cur = {}
        for s, tr in states.items():
            self._put(cur, self.dom.on_stmt(node, s), tr)
        cur = self.eval(node.exc, cur, out)
        cur = self.eval(node.cause, cur, out)
        for s, tr in cur.items():
            for k in self.dom.raise_kind(node, s, cur_exc):
                self._put(out, (s, RAISE(self.lat.canon(k))), tr)
        return out

    def s_Assert(self, node, states, cur_exc):
        out = {}
        cur = self.eval(node.test, states, out)
        for s, tr in cur.items():
            t = self.dom.assume(node.test, True, s)
            if t is not None:
                self._put(out, (t, NORMAL), tr)
            f = self.dom.assume(node.test, False, s)
            if f is not None:
                self._put(out, (f, RAISE("AssertionError")), tr)
        return out

    def _assume(self, test, truth, s):
        """Structural decomposition of a branch condition before the domain sees it (only the sound directions):
        `not X` flips; `A and B` taken -> A taken, B taken; `A or B` not taken -> A not taken, B not taken.  Atomic tests and the
        remaining directions go to the domain unchanged, so a domain need not know how the author combined its conditions."""
        if isinstance(test, ast.UnaryOp) and isinstance(test.op, ast.Not) and isinstance(test.operand, ast.BoolOp):
            return self._assume(test.operand, not truth, s)
        if isinstance(test, ast.BoolOp) and ((isinstance(test.op, ast.And) and truth) or (isinstance(test.op, ast.Or) and not truth)) \
                and not getattr(self.dom, "whole_boolops", False):
            for v in test.values:
                s = self._assume(v, truth, s)
                if s is None:
                    return None
            return s
        return self.dom.assume(test, truth, s)

    # -------------------------------------------------- compound statements
    def s_If(self, node, states, cur_exc):
        out = {}
        cur = self.eval(node.test, states, out)
        tstates, fstates = {}, {}
        for s, tr in cur.items():
            t = self._assume(node.test, True, s)
            if t is not None:
                self._put(tstates, t, tr)
            f = self._assume(node.test, False, s)
            if f is not None:
                self._put(fstates, f, tr)
        for k, tr in self.block(node.body, tstates, cur_exc).items():
            self._put(out, k, tr)
        for k, tr in self.block(node.orelse, fstates, cur_exc).items():
            self._put(out, k, tr)
        return out

    def s_While(self, node, states, cur_exc):
        out = {}
        seen = {}
        work = dict(states)
        exits = {}
        while work:
            new = {}
            for s, tr in work.items():
                if s in seen:
                    continue
                seen[s] = tr
                new[s] = tr
            if not new:
                break
            work = {}
            cur = self.eval(node.test, new, out)
            tstates = {}
            for s, tr in cur.items():
                t = self._assume(node.test, True, s)
                if t is not None:
                    self._put(tstates, t, tr)
                f = self._assume(node.test, False, s)
                if f is not None:
                    self._put(exits, f, tr)
            for (s, oc), tr in self.block(node.body, tstates, cur_exc).items():
                if oc == NORMAL or oc == CONTINUE:
                    if s not in seen:
                        self._put(work, s, tr)
                elif oc == BREAK:
                    self._put(out, (s, NORMAL), tr)
                else:
                    self._put(out, (s, oc), tr)
        for k, tr in self.block(node.orelse, exits, cur_exc).items():
            self._put(out, k, tr)
        return out

    def s_For(self, node, states, cur_exc):
        out = {}
        start = self.eval(node.iter, states, out)
        seen = {}
        work = dict(start)
        exits = {}
        while work:
            new = {}
            for s, tr in work.items():
                if s in seen:
                    continue
                seen[s] = tr
                new[s] = tr
            if not new:
                break
            work = {}
            bstates = {}
            for s, tr in new.items():
                more, done = self.dom.for_next(node, s)
                if more is not None:
                    self._put(bstates, self._store(node.target, ("iter", node.iter), more, node), tr)
                if done is not None:
                    self._put(exits, done, tr)
            for (s, oc), tr in self.block(node.body, bstates, cur_exc).items():
                if oc == NORMAL or oc == CONTINUE:
                    if s not in seen:
                        self._put(work, s, tr)
                elif oc == BREAK:
                    self._put(out, (s, NORMAL), tr)
                else:
                    self._put(out, (s, oc), tr)
        for k, tr in self.block(node.orelse, exits, cur_exc).items():
            self._put(out, k, tr)
        return out

    s_AsyncFor = s_For

    def s_With(self, node, states, cur_exc):
        out = {}
        cur = states
        for it in node.items:
            cur = self.eval(it.context_expr, cur, out)
            if it.optional_vars is not None:
                cur2 = {}
                for s, tr in cur.items():
                    self._put(cur2, self._store(it.optional_vars, ("with", it.context_expr), s, node), tr)
                cur = cur2
        for k, tr in self.block(node.body, cur, cur_exc).items():
            self._put(out, k, tr)
        return out

    s_AsyncWith = s_With

    def _handler_types(self, h):
        if h.type is None:
            return None
        elts = h.type.elts if isinstance(h.type, ast.Tuple) else [h.type]
        return [self.lat.canon(dotted(e) or "Exception") for e in elts]

    def s_Try(self, node, states, cur_exc):
        body = self.block(node.body, states, cur_exc)
        mid = {}
        normal = {}
        for (s, oc), tr in body.items():
            if oc == NORMAL:
                self._put(normal, s, tr)
            elif is_raise(oc):
                kind = oc[1]
                pending = {(s, kind, frozenset()): tr}
                for h in node.handlers:
                    if not pending:
                        break
                    types = self._handler_types(h)
                    nxt = {}
                    for (s1, k1, excl), tr1 in pending.items():
                        # residual of an earlier partial catch: subclasses of excluded kinds cannot arrive here
                        live = types
                        if types is not None and excl:
                            live = [t for t in types if not any(self.lat.issub(t, e) for e in excl)]
                            if not live:
                                nxt[(s1, k1, excl)] = tr1
                                continue
                        verdict, k2 = self.lat.catches(live, k1)
                        if verdict in ("yes", "maybe"):
                            s2 = self.dom.on_handler(h, k2, s1)
                            if h.name:
                                bound = dict(getattr(self.dom, "_bound_exc", {}))
                                bound[h.name] = k2
                                self.dom._bound_exc = bound
                                s2 = self.dom.on_store(ast.Name(id=h.name, ctx=ast.Store()), ("exc", k2), s2, h)
                            for k, trh in self.block(h.body, {s2: self._ext(tr1, h)}, k2).items():
                                self._put(mid, k, trh)
                        if verdict == "no":
                            nxt[(s1, k1, excl)] = tr1
                        elif verdict == "maybe":
                            nxt[(s1, k1, excl | {k2})] = tr1
                    pending = nxt
                for (s1, k1, excl), tr1 in pending.items():
                    self._put(mid, (s1, RAISE(k1)), tr1)
            else:
                self._put(mid, (s, oc), tr)
        for k, tr in self.block(node.orelse, normal, cur_exc).items():
            self._put(mid, k, tr)
        if not node.finalbody:
            return mid
        out = {}
        for (s, oc), tr in mid.items():
            for (s2, oc2), tr2 in self.block(node.finalbody, {s: tr}, oc[1] if is_raise(oc) else cur_exc).items():
                self._put(out, (s2, oc if oc2 == NORMAL else oc2), tr2)
        return out

    def s_Match(self, node, states, cur_exc):
        raise AnalysisError("match statement not supported (line %d)" % node.lineno)

    s_TryStar = s_Match
