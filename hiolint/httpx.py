"""Shared HTTP tables (receiver table, taint seeds) for C13-C19."""
HT, HS, HC = "hio.core.http.httping", "hio.core.http.serving", "hio.core.http.clienting"
TS, TC = "hio.core.tcp.serving", "hio.core.tcp.clienting"

# frozen receiver table: (owner class, attribute) -> classes of the value; 'attr[]' = element classes of a container.
# One line of reason each; entries are verified against the stores that fill them by verify_receiver_table().
RECEIVERS = {
    (TS + ":Server", "ixes[]"): [TS + ":Remoter", TS + ":RemoterTls"],        # serviceAxes / serviceCxes store Remoter* under ca
    (TS + ":ServerTls", "cxes[]"): [TS + ":RemoterTls"],                       # ServerTls.serviceAxes stores RemoterTls
    (HS + ":Server", "reqs[]"): [HS + ":Requestant"],                          # serviceConnects stores Requestant(...)
    (HS + ":Server", "reps[]"): [HS + ":Responder"],                           # serviceReqs stores Responder(...)
    (HS + ":Server", "servant"): [TS + ":Server", TS + ":ServerTls"],          # __init__: servant = tcp.Server(...)|tcp.ServerTls(...)
    (HS + ":BareServer", "servant"): [TS + ":Server", TS + ":ServerTls"],      # same in BareServer.__init__
    (HS + ":BareServer", "stewards[]"): [HS + ":Steward"],                     # serviceConnects stores Steward(...)
    (HS + ":Steward", "requestant"): [HS + ":Requestant"],                     # __init__: requestant = Requestant(...)
    (HS + ":Steward", "responder"): [HS + ":CustomResponder"],                 # __init__: responder = CustomResponder(...)
    (HS + ":Steward", "remoter"): [TS + ":Remoter", TS + ":RemoterTls"],       # passed the ixes element
    (HS + ":Requestant", "remoter"): [TS + ":Remoter", TS + ":RemoterTls"],    # Requestant(msg=ix.rxbs, remoter=ix)
    (HS + ":Responder", "incomer"): [TS + ":Remoter", TS + ":RemoterTls"],     # Responder(incomer=requestant.remoter)
    (HC + ":Client", "connector"): [TC + ":Client", TC + ":ClientTls"],        # __init__/redirect: tcp.Client(...)|tcp.ClientTls(...)
    (HC + ":Client", "requester"): [HC + ":Requester"],                        # __init__: requester = Requester(...)
    (HC + ":Client", "respondent"): [HC + ":Respondent"],                      # __init__: respondent = Respondent(...)
    (HC + ":Respondent", "eventSource"): [HT + ":EventSource"],                # parseHead: httping.EventSource(...)
}

# attributes that carry bytes received from the peer
SEEDS = {
    (HT + ":Parsent", "msg"), (HT + ":EventSource", "raw"), (HT + ":Parsent", "body"), (HT + ":Parsent", "headers"), (HT + ":Parsent", "headers#k"),
    (TS + ":Remoter", "rxbs"), (TC + ":Client", "rxbs"),
    (None, "raw"),
}


def verify_receiver_table(run):
    """Each table row must name existing classes and an attribute that the owner class (or its module) really assigns."""
    import ast
    from .index import walk_local, dotted
    ix = run.ix
    bad = []
    for (owner, attr), classes in RECEIVERS.items():
        c = ix.classes.get(owner)
        if c is None or any(k not in ix.classes for k in classes):
            bad.append("%s.%s: class vanished" % (owner, attr))
            continue
        a = attr[:-2] if attr.endswith("[]") else attr
        found = False
        for k in [x for x in ix.classes.values() if c in x.mro or x in c.mro]:
            for f in k.methods.values():
                for n in walk_local(f.node):
                    if isinstance(n, ast.Assign):
                        for t in n.targets:
                            base = t.value if isinstance(t, ast.Subscript) else t
                            if dotted(base) == "self." + a:
                                found = True
        if not found:
            bad.append("%s.%s: no store found" % (owner, attr))
        run.rows += 1
    return bad

# trust boundaries: results of these calls are not peer input (the application answers for what it returns)
TRUSTED = {"self.app"}

# receive buffers that are bytearrays (their slices are unhashable)
BA_SEEDS = {(HT + ":Parsent", "msg"), (HT + ":EventSource", "raw"), (HT + ":Parsent", "body"), (TS + ":Remoter", "rxbs"),
            (TC + ":Client", "rxbs"), (None, "raw")}
