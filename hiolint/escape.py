"""E7 - interprocedural raise/catch analysis with input taint.

Esc(f, R) = set of Raiser(kind, origin function, node, tainted, via) that may
propagate out of function f executed with receiver class R.  Sources:
 (i)   explicit `raise`;
 (ii)  the frozen implicit-raiser table applied to input-tainted operands;
 (iii) summaries of resolved callees;
 (iv)  the generator protocol: a generator body raises where it is advanced
       (next(g) / g.send() / yield from / for), not where it is created.
Everything is filtered through the enclosing try/except by class.
"""
import ast

from .astutil import parent, unparse, in_subtree, method_call
from .index import dotted, walk_local, ClassInfo, FuncInfo

# ---------------------------------------------------------------- frozen tables
RAISER_TABLE = [
    ("int(x) / float(x) on tainted x", "ValueError"),
    ("x.decode(codec) on tainted x, codec other than latin-1/iso-8859-1", "UnicodeDecodeError"),
    ("x.encode('ascii'|'idna') on tainted x", "UnicodeEncodeError"),
    ("a, b[, c] = x.split(..)/x.rsplit(..) on tainted x (fixed-arity unpack)", "ValueError"),
    ("urlsplit(x) on tainted x; .port of its result", "ValueError"),
    ("mapping[key] with tainted non-constant key on a known mapping, no dominating membership test", "KeyError"),
    ("json.loads(x) on tainted x", "ValueError"),
    ("base64 / binascii decoders on tainted x", "binascii.Error"),
    ("attribute/method/subscript use of a maybe-None value (mapping.get(k) without default, re.match, urlsplit().hostname/.port) "
     "with no dominating truthiness/None test", "AttributeError"),
    ("advancing a local generator after g.close() on the same path", "StopIteration (RuntimeError inside a generator, PEP 479)"),
    ("mapping[key] = v / {key: v} / set.add(key) where key is a bytearray slice of a receive buffer (unhashable)", "TypeError"),
]
BA_METHODS = {"strip", "lstrip", "rstrip", "lower", "upper", "title", "replace", "partition", "rpartition", "split", "rsplit",
              "splitlines", "copy", "join", "ljust", "rjust", "center", "removeprefix", "removesuffix", "expandtabs"}
NOT_IN_TABLE = ["constant-index access seq[0]", "arithmetic", "attribute access on non-None values", "calls that cannot be resolved"]

SANITIZERS = {"int", "float", "len", "abs", "bool", "ord", "round", "isinstance", "hasattr", "type", "id", "callable", "hash", "min", "max"}
LATIN = {"latin-1", "latin1", "iso-8859-1", "iso8859-1", "iso_8859_1", "l1"}
B64_DECODERS = {"decodeB64", "b64decode", "urlsafe_b64decode", "a2b_base64", "decodebytes", "standard_b64decode", "unhexlify", "a2b_hex"}
MUTATORS = {"append", "extend", "update", "add", "appendleft", "extendleft", "insert", "setdefault", "__setitem__"}


class Raiser:
    __slots__ = ("kind", "func", "node", "tainted", "what", "via")

    def __init__(self, kind, func, node, tainted, what, via=()):
        self.kind, self.func, self.node, self.tainted, self.what, self.via = kind, func, node, tainted, what, via

    def key(self):
        return (self.kind, self.func.fq, getattr(self.node, "lineno", 0), self.what)

    def site(self):
        return "%s:%s (%s)" % (self.func.module.relpath, getattr(self.node, "lineno", "?"), self.func.qualname)

    def construct(self):
        import re
        return re.sub(r"\s+", " ", self.what)[:140]


class Escape:
    def __init__(self, ix, lat, receiver_table=None, seeds=None, trusted=()):
        """receiver_table: {(class fq, attr): [class fq]} ('attr[]' for container elements)
        seeds: {(class fq or None, name)}: attribute / parameter names that carry input bytes"""
        self.ix, self.lat = ix, lat
        ix.receiver_table = dict(receiver_table or {})
        self.seeds = set(seeds or ())
        self.trusted = set(trusted)
        self.summ = {}
        self.inprog = set()
        self.tainted_attrs = {}      # class fq -> set(attr)
        self.tainted_params = {}     # func fq -> set(param names)
        self.tainted_returns = set() # func fq whose return/yield value is tainted
        self.ba_returns = set()      # func fq returning / yielding bytearray slices of a receive buffer
        self.ba_params = {}          # func fq -> params bound to such values
        self.ba_seeds = set()        # (class fq, attr) / (None, param) that are receive bytearrays
        self.unresolved = {}
        self.visited = set()
        self.calls_resolved = 0
        self.calls_total = 0
        self._localcache = {}
        self._ba = {}
        self._influence_mode = False
        self._infl = {}
        self.infl_attrs = {}
        self._infl_returns = set()
        self._infl_params = {}
        self.changed = False

    # ----------------------------------------------------------- typing aids
    def gen_attrs(self, cls):
        """{attr: [(FuncInfo generator, recv)]} from `self.attr = <call of generator function>`."""
        out = {}
        for k in cls.mro:
            for f in k.methods.values():
                for n in walk_local(f.node):
                    if isinstance(n, ast.Assign) and isinstance(n.value, ast.Call):
                        for t in n.targets:
                            if isinstance(t, ast.Attribute) and dotted(t.value) == "self":
                                for g, r in self.ix.resolve_call(f, cls, n.value):
                                    if g is not None and g.is_generator:
                                        out.setdefault(t.attr, [])
                                        if (g, r) not in out[t.attr]:
                                            out[t.attr].append((g, r))
        return out

    def local_info(self, f, recv):
        """(types {name: {ClassInfo}}, gens {name: [(FuncInfo, recv)]}) for locals of f."""
        key = (f.fq, recv.fq if recv else None)
        if key in self._localcache:
            return self._localcache[key]
        ix = self.ix
        types = {k: set(v) for k, v in ix.local_types(f).items()}
        gens = {}
        for n in walk_local(f.node):
            if isinstance(n, ast.Assign) and isinstance(n.value, ast.Call):
                for t in n.targets:
                    if isinstance(t, ast.Name):
                        for g, r in ix.resolve_call(f, recv, n.value, types):
                            if g is not None and g.is_generator:
                                gens.setdefault(t.id, [])
                                if (g, r) not in gens[t.id]:
                                    gens[t.id].append((g, r))
            if isinstance(n, ast.Assign) and isinstance(n.targets[0], ast.Name) and not isinstance(n.value, ast.Call):
                tys = ix.expr_classes(f, recv, n.value, types)
                if tys:
                    types.setdefault(n.targets[0].id, set()).update(tys)
            if isinstance(n, (ast.For, ast.comprehension)):
                it, tgt = n.iter, n.target
                # for k, v in [list(] X.items() [)]  /  for v in X.values()
                while isinstance(it, ast.Call) and dotted(it.func) in ("list", "tuple", "sorted", "reversed", "iter") and it.args:
                    it = it.args[0]
                if isinstance(it, ast.Call) and isinstance(it.func, ast.Attribute) and it.func.attr in ("items", "values"):
                    cont = it.func.value
                    if isinstance(cont, ast.Attribute):
                        owners = ix.expr_classes(f, recv, cont.value, types)
                        elem = set()
                        for o in owners:
                            for k in o.mro:
                                for c in ix.receiver_table.get((k.fq, cont.attr + "[]"), []):
                                    if c in ix.classes:
                                        elem.add(ix.classes[c])
                        if elem:
                            if it.func.attr == "items" and isinstance(tgt, ast.Tuple) and len(tgt.elts) == 2 and isinstance(tgt.elts[1], ast.Name):
                                types.setdefault(tgt.elts[1].id, set()).update(elem)
                            elif it.func.attr == "values" and isinstance(tgt, ast.Name):
                                types.setdefault(tgt.id, set()).update(elem)
        self._localcache[key] = (types, gens)
        return types, gens

    # ----------------------------------------------------------------- taint
    def _seed_attr(self, recv, attr):
        if recv is None:
            return False
        for k in recv.mro:
            if (k.fq, attr) in self.seeds or attr in self.tainted_attrs.get(k.fq, ()):
                return True
        return False

    def taint_of(self, f, recv):
        """(tainted names, is_t) for raiser operands, and - cached in self._infl - the same with numeric sanitizers
        switched off (values *influenced* by input: used for control dependence of explicit raises)."""
        if not self._influence_mode:
            self._influence_mode = True
            saved = (self.tainted_attrs, self.tainted_returns, self.tainted_params, self.changed)
            self.tainted_attrs, self.tainted_returns, self.tainted_params = self.infl_attrs, self._infl_returns, self._infl_params
            try:
                self._infl[(f.fq, recv.fq if recv else None)] = self._taint_of(f, recv)
            finally:
                self.infl_attrs, self._infl_returns, self._infl_params = self.tainted_attrs, self.tainted_returns, self.tainted_params
                ch = self.changed
                self.tainted_attrs, self.tainted_returns, self.tainted_params, self.changed = saved
                self.changed = self.changed or ch
                self._influence_mode = False
        return self._taint_of(f, recv)

    def _taint_of(self, f, recv):
        """Set of tainted local names / 'self.attr' strings in f (flow-insensitive fixpoint)."""
        tainted = set(self.tainted_params.get(f.fq, ()))
        for p in f.params()[0] + f.params()[1]:
            if (None, p) in self.seeds or (f.fq, p) in self.seeds:
                tainted.add(p)
        types, gens = self.local_info(f, recv)

        def key_tainted(e):
            d = dotted(e)
            if d is None:
                return False
            if d + "#k" in tainted:
                return True
            if isinstance(e, ast.Attribute):
                owners = {recv} if dotted(e.value) == "self" and recv is not None else self.ix.expr_classes(f, recv, e.value, types)
                return any(self._seed_attr(o, e.attr + "#k") for o in owners if o is not None)
            return False

        def is_t(e):
            if e is None:
                return False
            if isinstance(e, ast.Constant):
                return False
            if isinstance(e, ast.Name):
                return e.id in tainted
            if isinstance(e, ast.Attribute):
                d = dotted(e)
                if d and d.startswith("self.") and d.count(".") == 1:
                    return self._seed_attr(recv, e.attr) or d in tainted
                if d and d in tainted:
                    return True
                # attribute of a typed object: x.attr with x: Class whose attr is tainted
                owners = self.ix.expr_classes(f, recv, e.value, types)
                for o in owners:
                    if self._seed_attr(o, e.attr):
                        return True
                return is_t(e.value)
            if isinstance(e, ast.Call):
                name = dotted(e.func)
                # next(g) / g.send(): value yielded by a tainted generator
                tgt = None
                if name == "next" and e.args:
                    tgt = e.args[0]
                elif isinstance(e.func, ast.Attribute) and e.func.attr in ("send", "__next__"):
                    tgt = e.func.value
                if tgt is not None:
                    for g, r in self.gens_of(f, recv, tgt):
                        if g.fq in self.tainted_returns:
                            return True
                if name in self.trusted or (name in SANITIZERS and not self._influence_mode):
                    return False                     # numeric / boolean results cannot make a raiser of the table fire;
                                                     # trusted calls are declared trust boundaries (e.g. the WSGI app)
                callees = self.ix.resolve_call(f, recv, e, types)
                if callees:                          # repo callee: return-taint summary only; constructors build clean objects
                    return any(g is not None and g.fq in self.tainted_returns and g.name != "__init__"
                               for g, r in callees)
                if isinstance(e.func, ast.Attribute) and e.func.attr in ("items", "keys") and not e.args:
                    d = dotted(e.func.value)
                    if e.func.attr == "keys":
                        return key_tainted(e.func.value)
                    return is_t(e.func.value) or key_tainted(e.func.value)
                if isinstance(e.func, ast.Attribute) and is_t(e.func.value):
                    return True                      # method of a tainted value: x.strip(), x.split()
                return any(is_t(a.value if isinstance(a, ast.Starred) else a) for a in e.args) or any(is_t(k.value) for k in e.keywords)
            if isinstance(e, (ast.Lambda,)):
                return False
            if isinstance(e, ast.Compare):
                return False
            return any(is_t(c) for c in ast.iter_child_nodes(e) if isinstance(c, ast.expr))

        changed = True
        rounds = 0
        while changed and rounds < 10:
            changed = False
            rounds += 1
            for n in walk_local(f.node):
                tg, val = [], None
                if isinstance(n, ast.Assign):
                    tg, val = n.targets, n.value
                elif isinstance(n, ast.AugAssign):
                    tg, val = [n.target], n.value
                elif isinstance(n, ast.AnnAssign) and n.value is not None:
                    tg, val = [n.target], n.value
                elif isinstance(n, (ast.For, ast.comprehension)):
                    tg, val = [n.target], n.iter
                    it = n.iter
                    while isinstance(it, ast.Call) and dotted(it.func) in ("list", "tuple", "sorted", "reversed", "iter", "enumerate") and it.args:
                        it = it.args[0]
                    if isinstance(it, ast.Call) and isinstance(it.func, ast.Attribute) and it.func.attr == "items" \
                            and isinstance(n.target, ast.Tuple) and len(n.target.elts) == 2:
                        for tgt, flag in ((n.target.elts[0], key_tainted(it.func.value)), (n.target.elts[1], is_t(it.func.value))):
                            if flag:
                                for nm in ast.walk(tgt):
                                    if isinstance(nm, ast.Name) and nm.id not in tainted:
                                        tainted.add(nm.id)
                                        changed = True
                        continue
                elif isinstance(n, ast.NamedExpr):
                    tg, val = [n.target], n.value
                elif isinstance(n, ast.Call) and isinstance(n.func, ast.Attribute) and n.func.attr in MUTATORS:
                    if any(is_t(a) for a in n.args) or any(is_t(k.value) for k in n.keywords):
                        d = dotted(n.func.value)
                        if d and d not in tainted:
                            tainted.add(d)
                            changed = True
                            if d.startswith("self.") and d.count(".") == 1 and recv is not None:
                                self._taint_attr(recv, d.split(".")[1])
                    continue
                elif isinstance(n, (ast.With, ast.AsyncWith)):
                    for it in n.items:
                        if it.optional_vars is not None and is_t(it.context_expr):
                            for nm in ast.walk(it.optional_vars):
                                if isinstance(nm, ast.Name) and nm.id not in tainted:
                                    tainted.add(nm.id)
                                    changed = True
                    continue
                for t in tg:
                    if isinstance(t, ast.Subscript) and not isinstance(t.slice, ast.Slice) and is_t(t.slice):
                        d = dotted(t.value)
                        if d and d + "#k" not in tainted:
                            tainted.add(d + "#k")
                            changed = True
                            if d.startswith("self.") and d.count(".") == 1 and recv is not None:
                                self._taint_attr(recv, d.split(".")[1] + "#k")
                if val is None or not is_t(val):
                    continue
                if isinstance(val, ast.Name) and self._sanitized_in_else(n, val.id):
                    continue
                for t in tg:
                    for nm in ast.walk(t):
                        if isinstance(nm, ast.Name) and isinstance(nm.ctx, ast.Store) and nm.id not in tainted:
                            tainted.add(nm.id)
                            changed = True
                        elif isinstance(nm, ast.Attribute) and isinstance(nm.ctx, ast.Store):
                            d = dotted(nm)
                            if d and d not in tainted:
                                tainted.add(d)
                                changed = True
                            if d and d.startswith("self.") and d.count(".") == 1 and recv is not None:
                                self._taint_attr(recv, nm.attr)
                        elif isinstance(nm, ast.Subscript) and isinstance(nm.ctx, ast.Store):
                            d = dotted(nm.value)
                            if d and d not in tainted:
                                tainted.add(d)
                                changed = True
                            if d and d.startswith("self.") and d.count(".") == 1 and recv is not None:
                                self._taint_attr(recv, d.split(".")[1])
                            break       # names inside the subscript key are not assigned
        # returns / yields
        for n in walk_local(f.node):
            if isinstance(n, (ast.Return, ast.Yield)) and n.value is not None and is_t(n.value):
                if f.fq not in self.tainted_returns:
                    self.tainted_returns.add(f.fq)
                    self.changed = True
        self._ba[(f.fq, recv.fq if recv else None)] = self._bytearrays(f, recv, types)
        return tainted, is_t

    def _bytearrays(self, f, recv, types):
        """Names (and an is_ba predicate) holding bytearray slices of a receive buffer."""
        ba = set(self.ba_params.get(f.fq, ()))
        for p in f.params()[0] + f.params()[1]:
            if (None, p) in self.ba_seeds:
                ba.add(p)

        def seed_attr(o, attr):
            return o is not None and any((k.fq, attr) in self.ba_seeds for k in o.mro)

        def is_ba(e):
            if isinstance(e, ast.Name):
                return e.id in ba
            if isinstance(e, ast.Attribute):
                if dotted(e.value) == "self":
                    return seed_attr(recv, e.attr)
                return any(seed_attr(o, e.attr) for o in self.ix.expr_classes(f, recv, e.value, types))
            if isinstance(e, ast.Subscript):
                return isinstance(e.slice, ast.Slice) and is_ba(e.value)
            if isinstance(e, ast.BinOp) and isinstance(e.op, ast.Add):
                return is_ba(e.left) or is_ba(e.right)
            if isinstance(e, ast.Call):
                name = dotted(e.func)
                if name == "bytearray":
                    return True
                if name == "next" and e.args or (isinstance(e.func, ast.Attribute) and e.func.attr == "send"):
                    tgt = e.args[0] if name == "next" else e.func.value
                    return any(g.fq in self.ba_returns for g, r in self.gens_of(f, recv, tgt))
                if isinstance(e.func, ast.Attribute) and e.func.attr in BA_METHODS and is_ba(e.func.value):
                    return True
                callees = self.ix.resolve_call(f, recv, e, types)
                if callees:
                    return any(g is not None and g.fq in self.ba_returns and g.name != "__init__" for g, r in callees)
            return False

        changed = True
        while changed:
            changed = False
            for n in walk_local(f.node):
                tg, val = [], None
                if isinstance(n, ast.Assign):
                    tg, val = n.targets, n.value
                elif isinstance(n, (ast.For, ast.comprehension)):
                    tg, val = [n.target], n.iter
                if val is None or not is_ba(val):
                    continue
                for t in tg:
                    for nm in ([t] if isinstance(t, ast.Name) else (t.elts if isinstance(t, (ast.Tuple, ast.List)) else [])):
                        if isinstance(nm, ast.Name) and nm.id not in ba:
                            ba.add(nm.id)
                            changed = True
        # must-semantics: a name rebound from anything that is not a bytearray slice (e.g. x = x.decode()) is dropped
        dropped = True
        while dropped:
            dropped = False
            for n in walk_local(f.node):
                if isinstance(n, ast.Assign) and not is_ba(n.value):
                    for t in n.targets:
                        for nm in ([t] if isinstance(t, ast.Name) else (t.elts if isinstance(t, (ast.Tuple, ast.List)) else [])):
                            if isinstance(nm, ast.Name) and nm.id in ba:
                                ba.discard(nm.id)
                                dropped = True
        for n in walk_local(f.node):
            if isinstance(n, (ast.Return, ast.Yield)) and n.value is not None and is_ba(n.value):
                if f.fq not in self.ba_returns:
                    self.ba_returns.add(f.fq)
                    self.changed = True
        return ba, is_ba

    def _taint_attr(self, recv, attr):
        s = self.tainted_attrs.setdefault(recv.fq, set())
        if attr not in s:
            s.add(attr)
            self.changed = True

    def gens_of(self, f, recv, expr):
        """Generator functions an expression may denote: local name bound to a generator call, or self.attr."""
        types, gens = self.local_info(f, recv)
        if isinstance(expr, ast.Name):
            return gens.get(expr.id, [])
        if isinstance(expr, ast.Attribute):
            owners = self.ix.expr_classes(f, recv, expr.value, types)
            out = []
            for o in owners:
                for g, r in self.gen_attrs(o).get(expr.attr, []):
                    out.append((g, o))
            return out
        if isinstance(expr, ast.Call):
            return [(g, r) for g, r in self.ix.resolve_call(f, recv, expr, types) if g is not None and g.is_generator]
        return []

    # --------------------------------------------------------------- summary
    def esc(self, f, recv):
        key = (f.fq, recv.fq if recv else None)
        if key in self.summ:
            return self.summ[key]
        if key in self.inprog:
            return []
        self.inprog.add(key)
        self.visited.add(key)
        out = self._compute(f, recv)
        self.inprog.discard(key)
        self.summ[key] = out
        return out

    def analyse(self, entries):
        """entries: [(FuncInfo, recv)] ; iterate to a taint fixpoint, return {entry key: [Raiser]}"""
        for _ in range(8):
            self.changed = False
            self.summ = {}
            self._localcache = {}
            self.visited = set()
            self.unresolved = {}
            self.calls_resolved = self.calls_total = 0
            res = {}
            for f, recv in entries:
                res[(f.fq, recv.fq if recv else None)] = self.esc(f, recv)
            if not self.changed:
                break
        return res

    # ---------------------------------------------------------------------
    def _compute(self, f, recv):
        ix = self.ix
        types, gens = self.local_info(f, recv)
        tainted, is_t = self.taint_of(f, recv)
        found = []     # (Raiser, node)

        def add(kind, node, t, what, via=()):
            found.append((Raiser(self.lat.canon(kind), f, node, t, what, via), node))

        ctrl_cache = {}

        def ctrl_tainted(node):
            """node is control-dependent on a test / loop over tainted data."""
            p, cur = parent(node), node
            while p is not None and p is not f.node:
                if isinstance(p, (ast.If, ast.While)) and cur is not p.test and is_t_test(p.test):
                    return True
                if isinstance(p, (ast.For,)) and (is_t(p.iter) or is_t_test(p.iter)):
                    return True
                cur, p = p, parent(p)
            return False

        infl_names, is_infl = self._infl.get((f.fq, recv.fq if recv else None), (tainted, is_t))

        def is_t_test(test):
            self._influence_mode = True
            try:
                return any(is_infl(n) for n in ast.walk(test) if isinstance(n, (ast.Name, ast.Attribute, ast.Call)))
            finally:
                self._influence_mode = False

        any_taint = bool(tainted) or any(self._seed_attr(recv, a) for a in ("msg", "raw"))

        for n in walk_local(f.node):
            # (i) explicit raise
            if isinstance(n, ast.Raise):
                if n.exc is None:
                    continue        # bare re-raise handled with the handlers below
                exc = n.exc.func if isinstance(n.exc, ast.Call) else n.exc
                kind = dotted(exc) or "Exception"
                r = ix.resolve_dotted(f.module.name, kind)
                if isinstance(r, ClassInfo):
                    kind = r.name
                t = ctrl_tainted(n) or (isinstance(n.exc, ast.Call) and any(is_t(a) for a in n.exc.args))
                add(kind, n, t, "raise " + unparse(n.exc))
                continue
            if isinstance(n, ast.Call):
                self.calls_total += 1
                name = dotted(n.func)
                tail = name.split(".")[-1] if name else None
                # (ii) implicit raisers
                if name in ("int", "float") and n.args and is_t(n.args[0]):
                    add("ValueError", n, True, unparse(n))
                if isinstance(n.func, ast.Attribute) and n.func.attr == "decode" and is_t(n.func.value):
                    codec = n.args[0].value if n.args and isinstance(n.args[0], ast.Constant) else ("utf-8" if not n.args else None)
                    if codec is None or str(codec).lower() not in LATIN:
                        add("UnicodeDecodeError", n, True, unparse(n))
                if isinstance(n.func, ast.Attribute) and n.func.attr == "encode" and is_t(n.func.value) and n.args \
                        and isinstance(n.args[0], ast.Constant) and str(n.args[0].value).lower() in ("ascii", "idna"):
                    add("UnicodeEncodeError", n, True, unparse(n))
                if tail == "urlsplit" and n.args and is_t(n.args[0]):
                    add("ValueError", n, True, unparse(n))
                if name in ("json.loads",) and n.args and is_t(n.args[0]):
                    add("ValueError", n, True, unparse(n))
                if tail in B64_DECODERS and n.args and is_t(n.args[0]):
                    callees = ix.resolve_call(f, recv, n, types)
                    if not callees:
                        add("binascii.Error", n, True, unparse(n))
                # (iv) generator advance
                adv = None
                if name == "next" and n.args:
                    adv = n.args[0]
                elif isinstance(n.func, ast.Attribute) and n.func.attr in ("send", "__next__", "throw"):
                    adv = n.func.value
                if adv is not None:
                    gs = self.gens_of(f, recv, adv)
                    for g, r in gs:
                        for ra in self.esc(g, r):
                            found.append((Raiser(ra.kind, ra.func, ra.node, ra.tainted, ra.what, (f.fq,) + ra.via), n))
                    if gs:
                        self.calls_resolved += 1
                    continue
                # (iii) resolved callees
                callees = ix.resolve_call(f, recv, n, types)
                if callees:
                    self.calls_resolved += 1
                    # propagate parameter taint
                    for g, r in callees:
                        if g is None:
                            continue
                        self._bind_taint(f, n, g, is_t)
                        self._bind_types(f, recv, n, g, types)
                        if g.is_generator:
                            par = parent(n)
                            stored = isinstance(par, ast.Assign) and all(isinstance(t, (ast.Name, ast.Attribute)) for t in par.targets)
                            if stored or isinstance(par, (ast.Return, ast.Expr)) or isinstance(par, ast.YieldFrom):
                                self.esc(g, r)       # summary (and taint) only: creation raises nothing
                                continue
                            # consumed on the spot: a, b = gen(...), tuple(gen(...)), for x in gen(...)
                        for ra in self.esc(g, r):
                            found.append((Raiser(ra.kind, ra.func, ra.node, ra.tainted, ra.what, (f.fq,) + ra.via), n))
                else:
                    if name and tail not in ("append", "extend", "get", "items", "values", "keys", "format", "join", "strip",
                                             "lower", "upper", "split", "partition", "rpartition", "find", "startswith", "endswith",
                                             "close", "update", "clear", "pop", "popleft", "encode", "decode", "title", "replace"):
                        self.unresolved[name] = self.unresolved.get(name, 0) + 1
            # yield from / for over a generator
            if isinstance(n, ast.YieldFrom):
                for g, r in self.gens_of(f, recv, n.value):
                    for ra in self.esc(g, r):
                        found.append((Raiser(ra.kind, ra.func, ra.node, ra.tainted, ra.what, (f.fq,) + ra.via), n))
            if isinstance(n, ast.For):
                for g, r in self.gens_of(f, recv, n.iter):
                    for ra in self.esc(g, r):
                        found.append((Raiser(ra.kind, ra.func, ra.node, ra.tainted, ra.what, (f.fq,) + ra.via), n))
            # fixed-arity unpack of a split
            if isinstance(n, ast.Assign) and isinstance(n.targets[0], (ast.Tuple, ast.List)) and isinstance(n.value, ast.Call) \
                    and isinstance(n.value.func, ast.Attribute) and n.value.func.attr in ("split", "rsplit") \
                    and not any(isinstance(e, ast.Starred) for e in n.targets[0].elts) and is_t(n.value.func.value):
                if not self._split_guarded(f, n):
                    add("ValueError", n, True, unparse(n))
            # .port of a urlsplit result
            if isinstance(n, ast.Attribute) and n.attr == "port" and isinstance(n.ctx, ast.Load):
                src = self._local_value(f, n.value)
                if isinstance(src, ast.Call) and (dotted(src.func) or "").split(".")[-1] == "urlsplit" and src.args and is_t(src.args[0]):
                    add("ValueError", n, True, unparse(n))
            # mapping[key]
            if isinstance(n, ast.Subscript) and isinstance(n.ctx, ast.Load) and not isinstance(n.slice, (ast.Slice, ast.Constant)) \
                    and not (isinstance(n.slice, ast.UnaryOp) and isinstance(n.slice.operand, ast.Constant)):
                if is_t(n.slice) and self._is_mapping(f, recv, n.value) and not self._membership_guarded(f, n):
                    add("KeyError", n, True, unparse(n))
        # unhashable bytearray keys
        ba, is_ba = self._ba.get((f.fq, recv.fq if recv else None), (set(), lambda e: False))
        for n in walk_local(f.node):
            key = None
            if isinstance(n, ast.Subscript) and isinstance(n.ctx, ast.Store) and not isinstance(n.slice, ast.Slice):
                key = n.slice
            elif isinstance(n, ast.Dict):
                for kx in n.keys:
                    if kx is not None and is_ba(kx):
                        key = kx
            elif isinstance(n, ast.Call) and isinstance(n.func, ast.Attribute) and n.func.attr == "add" and n.args:
                key = n.args[0]
            if key is not None and is_ba(key):
                add("TypeError", n, True, "%s with unhashable bytearray key %s" % (unparse(n), unparse(key)))
        # maybe-None dereferences
        for node, what in self._maybe_none_derefs(f, recv, is_t):
            add("AttributeError", node, True, what)
        # closed-generator advance (typestate)
        for node, what in self._advance_after_close(f):
            add("RuntimeError" if f.is_generator else "StopIteration", node, ctrl_tainted(node) or any_taint, what)

        # filter through enclosing handlers; bare re-raise inside handlers
        out = {}
        body_raises = {}    # Try node -> list of raisers reaching its handlers
        for ra, node in found:
            cur = self._filter(ra, node, f, body_raises)
            if cur is not None:
                out.setdefault(cur.key(), cur)
        # bare `raise` in a handler re-raises what that handler caught
        for n in walk_local(f.node):
            if isinstance(n, ast.Raise) and n.exc is None:
                h = n
                while h is not None and not isinstance(h, ast.ExceptHandler):
                    h = parent(h)
                if h is None:
                    continue
                t = parent(h)
                types_h = self._handler_types(h)
                for ra in body_raises.get(t, []):
                    verdict, _ = self.lat.catches(types_h, ra.kind)
                    if verdict in ("yes", "maybe") and self._first_catcher(t, ra.kind) is h:
                        again = Raiser(ra.kind, ra.func, ra.node, ra.tainted, ra.what, ra.via)
                        cur = self._filter(again, n, f, body_raises)
                        if cur is not None:
                            out.setdefault(cur.key(), cur)
        return list(out.values())

    def _handler_types(self, h):
        if h.type is None:
            return None
        elts = h.type.elts if isinstance(h.type, ast.Tuple) else [h.type]
        res = []
        for e in elts:
            d = dotted(e) or "Exception"
            res.append(self.lat.canon(d))
        return res

    def _first_catcher(self, t, kind):
        for h in t.handlers:
            v, _ = self.lat.catches(self._handler_types(h), kind)
            if v in ("yes", "maybe"):
                return h
        return None

    def _filter(self, ra, node, f, body_raises):
        """Walk up from node: each enclosing Try whose *body* contains it may catch ra.kind."""
        cur, p = node, parent(node)
        while p is not None and cur is not f.node:
            if isinstance(p, ast.Try) and cur in p.body:
                body_raises.setdefault(p, []).append(ra)
                caught = False
                for h in p.handlers:
                    v, _ = self.lat.catches(self._handler_types(h), ra.kind)
                    if v == "yes":
                        caught = True
                        break
                if caught:
                    return None
            cur, p = p, parent(p)
        return ra

    def _bind_types(self, f, recv, call, g, types):
        """Propagate argument classes to the callee's parameters (context-insensitive union)."""
        names, kwonly, vararg, kwarg = g.params()
        if g.cls is not None and names and names[0] in ("self", "cls"):
            names = names[1:]
        pairs = [(names[i], a) for i, a in enumerate(call.args) if i < len(names) and not isinstance(a, ast.Starred)]
        pairs += [(k.arg, k.value) for k in call.keywords if k.arg and k.arg in names + kwonly]
        for pname, arg in pairs:
            cls = self.ix.expr_classes(f, recv, arg, types)
            if cls:
                key = (g.fq, pname)
                cur = self.ix.receiver_table.setdefault(key, [])
                for c in cls:
                    if c.fq not in cur:
                        cur.append(c.fq)
                        self.changed = True

    def _bind_taint(self, f, call, g, is_t):
        names, kwonly, vararg, kwarg = g.params()
        if g.cls is not None and names and names[0] in ("self", "cls"):
            names = names[1:]
        ba, is_ba = self._ba.get((f.fq, None), (None, None)) if False else (None, None)
        for key, val in self._ba.items():
            if key[0] == f.fq:
                ba, is_ba = val
        if is_ba is not None:
            bp = self.ba_params.setdefault(g.fq, set())
            pairs = [(names[i], a) for i, a in enumerate(call.args) if i < len(names) and not isinstance(a, ast.Starred)]
            pairs += [(k.arg, k.value) for k in call.keywords if k.arg and k.arg in names + kwonly]
            for pname, arg in pairs:
                if is_ba(arg) and pname not in bp:
                    bp.add(pname)
                    self.changed = True
        infl = None
        for key, val in self._infl.items():
            if key[0] == f.fq:
                infl = val[1]
        if infl is not None:
            ip = self._infl_params.setdefault(g.fq, set())
            self._influence_mode = True
            try:
                pairs = [(names[i], a) for i, a in enumerate(call.args) if i < len(names) and not isinstance(a, ast.Starred)]
                pairs += [(k.arg, k.value) for k in call.keywords if k.arg and k.arg in names + kwonly]
                for pname, arg in pairs:
                    if pname not in ip and infl(arg):
                        ip.add(pname)
                        self.changed = True
            finally:
                self._influence_mode = False
        tp = self.tainted_params.setdefault(g.fq, set())
        for i, a in enumerate(call.args):
            if isinstance(a, ast.Starred):
                continue
            if is_t(a) and i < len(names) and names[i] not in tp:
                tp.add(names[i])
                self.changed = True
        for k in call.keywords:
            if k.arg and is_t(k.value) and k.arg in names + kwonly and k.arg not in tp:
                tp.add(k.arg)
                self.changed = True

    def _local_value(self, f, e):
        """If e is a local name with exactly one assignment in f, return the assigned value."""
        if isinstance(e, ast.Name):
            vals = [n.value for n in walk_local(f.node) if isinstance(n, ast.Assign)
                    and any(isinstance(t, ast.Name) and t.id == e.id for t in n.targets)]
            if len(vals) == 1:
                return vals[0]
            return None
        return e

    def _is_mapping(self, f, recv, base):
        d = dotted(base)
        if d is None:
            return False
        v = None
        if isinstance(base, ast.Name):
            v = self._local_value(f, base)
            if v is None:
                r = self.ix.resolve_symbol(f.module.name, base.id)
                if isinstance(r, tuple) and r[0] == "global":
                    v = self.ix.globals[r[1]].get(r[2])
        elif isinstance(base, ast.Attribute):
            r = self.ix.resolve_dotted(f.module.name, d)
            if isinstance(r, tuple) and r[0] == "global":
                v = self.ix.globals[r[1]].get(r[2])
            elif isinstance(r, tuple) and r[0] == "classattr":
                v = r[3]
            elif d.startswith("self.") and recv is not None:
                v = self.ix.class_assign(recv, base.attr)
                if v is None:
                    for k in recv.mro:
                        init = k.methods.get("__init__")
                        if init:
                            for n in walk_local(init.node):
                                if isinstance(n, ast.Assign) and dotted(n.targets[0]) == d:
                                    v = n.value
        if v is None:
            return False
        if isinstance(v, (ast.Dict, ast.DictComp)):
            return True
        if isinstance(v, ast.Call) and (dotted(v.func) or "").split(".")[-1] in ("dict", "OrderedDict", "defaultdict", "Hict", "Mict", "cimdict", "mudict") :
            return (dotted(v.func) or "").split(".")[-1] != "defaultdict"
        if isinstance(v, ast.Call) and isinstance(self.ix.resolve_dotted(f.module.name, dotted(v.func)), ClassInfo):
            # instance of a repo class used as a code table (namedtuple/dataclass instances are indexed by attribute, not key)
            return False
        return False

    @staticmethod
    def _sanitized_in_else(stmt, name):
        """stmt sits in the `else` of a try whose body rebinds `name` from a numeric sanitizer: name is a number there."""
        p, cur = parent(stmt), stmt
        while p is not None:
            if isinstance(p, ast.Try) and cur in p.orelse:
                for b in p.body:
                    if isinstance(b, ast.Assign) and any(isinstance(t, ast.Name) and t.id == name for t in b.targets) \
                            and isinstance(b.value, ast.Call) and dotted(b.value.func) in ("int", "float"):
                        return True
            cur, p = p, parent(p)
        return False

    def _split_guarded(self, f, assign):
        """`a, b = x.split(sep, 1)` is safe under a dominating `sep in x` test (exactly one split => two parts)."""
        call = assign.value
        ntargets = len(assign.targets[0].elts)
        if not (len(call.args) == 2 and isinstance(call.args[1], ast.Constant) and call.args[1].value == ntargets - 1
                and isinstance(call.args[0], ast.Constant)):
            return False
        sep, subj = call.args[0].value, unparse(call.func.value)
        p, cur = parent(assign), assign
        while p is not None and cur is not f.node:
            if isinstance(p, ast.If) and cur in p.body:
                for c in ast.walk(p.test):
                    if isinstance(c, ast.Compare) and len(c.ops) == 1 and isinstance(c.ops[0], ast.In) \
                            and isinstance(c.left, ast.Constant) and c.left.value == sep and unparse(c.comparators[0]) == subj:
                        return True
            cur, p = p, parent(p)
        return False

    def _membership_guarded(self, f, sub):
        key = unparse(sub.slice)
        base = unparse(sub.value)
        p, cur = parent(sub), sub
        while p is not None and cur is not f.node:
            if isinstance(p, (ast.If, ast.IfExp)) and cur is not p.test:
                inbody = (cur in p.body) if isinstance(p, ast.If) else (cur is p.body)
                for c in ast.walk(p.test):
                    if isinstance(c, ast.Compare) and len(c.ops) == 1 and unparse(c.left) == key and unparse(c.comparators[0]) == base:
                        if isinstance(c.ops[0], ast.In) and inbody:
                            return True
                        if isinstance(c.ops[0], ast.NotIn) and not inbody:
                            return True
            # earlier guard in the same block: if key not in base: raise/return/continue
            blk = None
            for field in ("body", "orelse", "finalbody"):
                b = getattr(p, field, None)
                if isinstance(b, list) and cur in b:
                    blk = b
            if blk is not None:
                for prev in blk[:blk.index(cur)]:
                    if isinstance(prev, ast.If) and prev.body and isinstance(prev.body[-1], (ast.Raise, ast.Return, ast.Continue, ast.Break)):
                        for c in ast.walk(prev.test):
                            if isinstance(c, ast.Compare) and len(c.ops) == 1 and isinstance(c.ops[0], ast.NotIn) \
                                    and unparse(c.left) == key and unparse(c.comparators[0]) == base:
                                return True
            cur, p = p, parent(p)
        return False

    def _maybe_none_derefs(self, f, recv, is_t):
        """Locals assigned from X.get(k) (no default) / re.match / urlsplit().hostname and later dereferenced unguarded."""
        out = []
        cands = {}
        for n in walk_local(f.node):
            if isinstance(n, ast.Assign) and len(n.targets) == 1 and isinstance(n.targets[0], ast.Name):
                v = n.value
                why = None
                if isinstance(v, ast.Call) and isinstance(v.func, ast.Attribute) and v.func.attr == "get" and len(v.args) == 1 and not v.keywords:
                    if is_t(v.func.value) or is_t(v):
                        why = unparse(v)
                elif isinstance(v, ast.Call) and dotted(v.func) in ("re.match", "re.search", "re.fullmatch") and any(is_t(a) for a in v.args):
                    why = unparse(v)
                if why:
                    cands.setdefault(n.targets[0].id, []).append((n, why))
        if not cands:
            return out
        # a name reassigned from a non-None source elsewhere is not tracked
        for name, defs in cands.items():
            other = [n for n in walk_local(f.node) if isinstance(n, ast.Assign)
                     and any(isinstance(t, ast.Name) and t.id == name for t in n.targets) and n not in [d[0] for d in defs]]
            inloop = any(isinstance(a, (ast.For, ast.While)) for a in self._ancestors(defs[0][0], f))
            if other and inloop:
                continue
            first_other = min([o.lineno for o in other] or [10 ** 9])
            for n in walk_local(f.node):
                if getattr(n, "lineno", 0) > first_other:
                    continue
                deref = None
                if isinstance(n, ast.Attribute) and isinstance(n.value, ast.Name) and n.value.id == name and isinstance(n.ctx, ast.Load):
                    deref = n
                elif isinstance(n, ast.Subscript) and isinstance(n.value, ast.Name) and n.value.id == name and isinstance(n.ctx, ast.Load):
                    deref = n
                if deref is None or deref.lineno <= defs[0][0].lineno:
                    continue
                if self._truth_guarded(f, deref, name):
                    continue
                out.append((deref, "%s where %s = %s may be None" % (unparse(deref), name, defs[0][1])))
        return out

    @staticmethod
    def _ancestors(node, f):
        p = parent(node)
        while p is not None and p is not f.node:
            yield p
            p = parent(p)

    def _truth_guarded(self, f, node, name):
        p, cur = parent(node), node
        while p is not None and cur is not f.node:
            if isinstance(p, (ast.If, ast.While, ast.IfExp)):
                test = p.test
                inbody = (cur in p.body) if not isinstance(p, ast.IfExp) else (cur is p.body)
                if cur is not test:
                    pol = _truth_polarity(test, name)
                    if pol is True and inbody:
                        return True
                    if pol is False and not inbody:
                        return True
            if isinstance(p, ast.BoolOp) and isinstance(p.op, ast.And):
                idx = p.values.index(cur) if cur in p.values else -1
                for v in p.values[:max(idx, 0)]:
                    if _truth_polarity(v, name) is True:
                        return True
            blk = None
            for field in ("body", "orelse", "finalbody"):
                b = getattr(p, field, None)
                if isinstance(b, list) and cur in b:
                    blk = b
            if blk is not None:
                for prev in blk[:blk.index(cur)]:
                    if isinstance(prev, ast.If) and prev.body and isinstance(prev.body[-1], (ast.Raise, ast.Return, ast.Continue, ast.Break)) \
                            and _truth_polarity(prev.test, name) is False:
                        return True
            cur, p = p, parent(p)
        return False

    def _advance_after_close(self, f):
        """Local generator: g.close() then next(g) reachable on the same path without re-creation (E3 typestate)."""
        from .absint import Domain, Interp, NORMAL
        gens = set()
        for n in walk_local(f.node):
            if isinstance(n, ast.Call) and isinstance(n.func, ast.Attribute) and n.func.attr == "close" and isinstance(n.func.value, ast.Name):
                gens.add(n.func.value.id)
        gens = {g for g in gens if any(isinstance(n, ast.Call) and dotted(n.func) == "next" and n.args and dotted(n.args[0]) == g
                                       for n in walk_local(f.node))}
        if not gens:
            return []
        hits = {}

        class Dom(Domain):
            def initial(self):
                return frozenset()

            def on_store(self, target, value, state, stmt):
                if isinstance(target, ast.Name) and target.id in gens:
                    return state - {target.id}
                return state

            def on_event(self, node, state):
                if isinstance(node, ast.Call):
                    if isinstance(node.func, ast.Attribute) and node.func.attr == "close" and dotted(node.func.value) in gens:
                        yield state | {dotted(node.func.value)}, NORMAL
                        return
                    if dotted(node.func) == "next" and node.args and dotted(node.args[0]) in state:
                        hits[node] = "next(%s) after %s.close() on the same path" % (dotted(node.args[0]), dotted(node.args[0]))
                yield state, NORMAL
        try:
            Interp(Dom(), self.lat).run(f.node)
        except Exception:
            return []
        return list(hits.items())


def _truth_polarity(test, name):
    """True if `test` true implies name is truthy/not None; False if test true implies name falsy/None; else None."""
    t, neg = test, False
    while isinstance(t, ast.UnaryOp) and isinstance(t.op, ast.Not):
        t, neg = t.operand, not neg
    if isinstance(t, ast.Name) and t.id == name:
        return not neg
    if isinstance(t, ast.Compare) and len(t.ops) == 1 and isinstance(t.left, ast.Name) and t.left.id == name \
            and isinstance(t.comparators[0], ast.Constant) and t.comparators[0].value is None:
        if isinstance(t.ops[0], (ast.IsNot, ast.NotEq)):
            return not neg
        if isinstance(t.ops[0], (ast.Is, ast.Eq)):
            return neg
    if isinstance(t, ast.BoolOp) and isinstance(t.op, ast.And) and not neg:
        for v in t.values:
            if _truth_polarity(v, name) is True:
                return True
    if isinstance(t, ast.BoolOp) and isinstance(t.op, ast.Or) and neg:
        return None
    return None
