"""E8 - name binding: names loaded in a function that are bound nowhere
(function scope incl. nested comprehension targets, enclosing functions, module
globals, builtins).  Such a load raises NameError whenever it executes."""
import ast
import builtins

from .index import walk_local

BUILTINS = set(dir(builtins)) | {"__file__", "__name__", "__doc__", "__class__"}


def _bound_in(fnode):
    bound = set()
    a = fnode.args
    for x in a.posonlyargs + a.args + a.kwonlyargs:
        bound.add(x.arg)
    if a.vararg:
        bound.add(a.vararg.arg)
    if a.kwarg:
        bound.add(a.kwarg.arg)
    for n in walk_local(fnode):
        if isinstance(n, ast.Name) and isinstance(n.ctx, (ast.Store, ast.Del)):
            bound.add(n.id)
        elif isinstance(n, (ast.FunctionDef, ast.AsyncFunctionDef, ast.ClassDef)):
            bound.add(n.name)
        elif isinstance(n, (ast.Import, ast.ImportFrom)):
            for al in n.names:
                bound.add((al.asname or al.name).split(".")[0])
        elif isinstance(n, ast.ExceptHandler) and n.name:
            bound.add(n.name)
        elif isinstance(n, (ast.Global, ast.Nonlocal)):
            bound.update(n.names)
        elif isinstance(n, ast.Lambda):
            pass
        elif isinstance(n, ast.MatchAs) and n.name:
            bound.add(n.name)
    return bound


def _loads(fnode):
    """(name, node) loads in the function's own scope; lambda bodies are included with
    their parameters treated as bound."""
    out = []

    def rec(n, extra):
        if isinstance(n, ast.Lambda):
            ex = set(extra)
            for x in n.args.posonlyargs + n.args.args + n.args.kwonlyargs:
                ex.add(x.arg)
            if n.args.vararg:
                ex.add(n.args.vararg.arg)
            if n.args.kwarg:
                ex.add(n.args.kwarg.arg)
            rec(n.body, ex)
            return
        if isinstance(n, (ast.FunctionDef, ast.AsyncFunctionDef, ast.ClassDef)):
            for d in n.decorator_list:
                rec(d, extra)
            return
        if isinstance(n, ast.Name) and isinstance(n.ctx, ast.Load) and n.id not in extra:
            out.append((n.id, n))
        for c in ast.iter_child_nodes(n):
            rec(c, extra)
    for st in fnode.body:
        rec(st, set())
    return out


def unbound_names(ix, f):
    """[(name, node)] loads in f that are bound in no visible scope."""
    bound = _bound_in(f.node)
    outer = f.outer
    while outer is not None:
        bound |= _bound_in(outer.node)
        outer = outer.outer
    mod = f.module.name
    glob = set(ix.globals[mod]) | set(ix.toplevel[mod]) | {k for k in ix.imports[mod] if not k.startswith("<local:")}
    # module-level names bound by other statements (for/with/try at module level, augmented etc.)
    stack = list(f.module.tree.body)
    while stack:
        n = stack.pop()
        if isinstance(n, (ast.FunctionDef, ast.AsyncFunctionDef, ast.ClassDef, ast.Lambda)):
            continue
        if isinstance(n, ast.Name) and isinstance(n.ctx, ast.Store):
            glob.add(n.id)
        stack.extend(ast.iter_child_nodes(n))
    res = []
    for name, node in _loads(f.node):
        if name in bound or name in glob or name in BUILTINS:
            continue
        res.append((name, node))
    return res
