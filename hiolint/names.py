"""E8 - name binding: names loaded in a function that are bound nowhere
(function scope incl. nested comprehension targets, enclosing functions, module
globals, builtins).  Such a load raises NameError whenever it executes."""
import ast
import builtins

from .index import walk_local

BUILTINS = set(dir(builtins)) | {"__file__", "__name__", "__doc__", "__class__"}


def _bound_in(fnode):
    bound = set()
    a = fnode.args
    for x in a.posonlyargs + a.args + a.kwonlyargs:
        bound.add(x.arg)
    if a.vararg:
        bound.add(a.vararg.arg)
    if a.kwarg:
        bound.add(a.kwarg.arg)
    for n in walk_local(fnode):
        if isinstance(n, ast.Name) and isinstance(n.ctx, (ast.Store, ast.Del)):
            bound.add(n.id)
        elif isinstance(n, (ast.FunctionDef, ast.AsyncFunctionDef, ast.ClassDef)):
            bound.add(n.name)
        elif isinstance(n, (ast.Import, ast.ImportFrom)):
            for al in n.names:
                bound.add((al.asname or al.name).split(".")[0])
        elif isinstance(n, ast.ExceptHandler) and n.name:
            bound.add(n.name)
        elif isinstance(n, (ast.Global, ast.Nonlocal)):
            bound.update(n.names)
        elif isinstance(n, ast.Lambda):
            pass
        elif isinstance(n, ast.MatchAs) and n.name:
            bound.add(n.name)
    return bound


def _loads(fnode):
    """(name, node) loads in the function's own scope; lambda bodies are included with
    their parameters treated as bound."""
    out = []

    def rec(n, extra):
        if isinstance(n, ast.Lambda):
            ex = set(extra)
            for x in n.args.posonlyargs + n.args.args + n.args.kwonlyargs:
                ex.add(x.arg)
            if n.args.vararg:
                ex.add(n.args.vararg.arg)
            if n.args.kwarg:
                ex.add(n.args.kwarg.arg)
            rec(n.body, ex)
            return
        if isinstance(n, (ast.FunctionDef, ast.AsyncFunctionDef, ast.ClassDef)):
            for d in n.decorator_list:
                rec(d, extra)
            return
        if isinstance(n, ast.Name) and isinstance(n.ctx, ast.Load) and n.id not in extra:
            out.append((n.id, n))
        for c in ast.iter_child_nodes(n):
            rec(c, extra)
    for st in fnode.body:
        rec(st, set())
    return out


def unbound_names(ix, f):
    """[(name, node)] loads in f that are bound in no visible scope."""
    bound = _bound_in(f.node)
    outer = f.outer
    while outer is not None:
        bound |= _bound_in(outer.node)
        outer = outer.outer
    mod = f.module.name
    glob = set(ix.globals[mod]) | set(ix.toplevel[mod]) | {k for k in ix.imports[mod] if not k.startswith("<local:")}
    # module-level names bound by other statements (for/with/try at module level, augmented etc.)
    stack = list(f.module.tree.body)
    while stack:
        n = stack.pop()
        if isinstance(n, (ast.FunctionDef, ast.AsyncFunctionDef, ast.ClassDef, ast.Lambda)):
            continue
        if isinstance(n, ast.Name) and isinstance(n.ctx, ast.Store):
            glob.add(n.id)
        stack.extend(ast.iter_child_nodes(n))
    res = []
    for name, node in _loads(f.node):
        if name in bound or name in glob or name in BUILTINS:
            continue
        res.append((name, node))
    return res


# ---------------------------------------------------------------- E8b definite use-before-definition
def definite_unbound_locals(run, f, may=False):
    """[(name, node)]: loads of a *local* name at a statement that no path reaches with the name assigned
    (may=True: that SOME explored path reaches unassigned - over-approximate, needs triage):
    executing the statement always raises UnboundLocalError.  (Path-exhaustive over E3; a load that is unassigned only
    on some paths is not reported - that may be an infeasible path.)"""
    from .absint import Domain, Interp, NORMAL, RAISE

    fnode = f.node
    a = fnode.args
    params = {x.arg for x in a.posonlyargs + a.args + a.kwonlyargs}
    if a.vararg:
        params.add(a.vararg.arg)
    if a.kwarg:
        params.add(a.kwarg.arg)
    locals_ = set()
    globals_ = set()
    for n in walk_local(fnode):
        if isinstance(n, ast.Name) and isinstance(n.ctx, (ast.Store, ast.Del)):
            locals_.add(n.id)
        elif isinstance(n, (ast.Global, ast.Nonlocal)):
            globals_.update(n.names)
        elif isinstance(n, ast.ExceptHandler) and n.name:
            locals_.add(n.name)
        elif isinstance(n, (ast.Import, ast.ImportFrom)):
            for al in n.names:
                locals_.add((al.asname or al.name).split(".")[0])
        elif isinstance(n, (ast.FunctionDef, ast.AsyncFunctionDef, ast.ClassDef)) and n is not fnode:
            locals_.add(n.name)
    # names bound only inside comprehensions are not function locals
    comp_only = set()
    for n in walk_local(fnode):
        if isinstance(n, (ast.ListComp, ast.SetComp, ast.DictComp, ast.GeneratorExp)):
            for g in n.generators:
                for t in ast.walk(g.target):
                    if isinstance(t, ast.Name):
                        comp_only.add(t.id)
    outside = set()
    def collect(n, incomp):
        if isinstance(n, (ast.ListComp, ast.SetComp, ast.DictComp, ast.GeneratorExp)):
            for c in ast.iter_child_nodes(n):
                collect(c, True)
            return
        if isinstance(n, (ast.FunctionDef, ast.AsyncFunctionDef, ast.ClassDef, ast.Lambda)) and n is not fnode:
            return
        if isinstance(n, ast.Name) and isinstance(n.ctx, (ast.Store, ast.Del)) and not incomp:
            outside.add(n.id)
        for c in ast.iter_child_nodes(n):
            collect(c, incomp)
    collect(fnode, False)
    # names bound by a walrus are assigned inside expressions the interpreter does not model: never reported
    walrus = {n.target.id for n in walk_local(fnode) if isinstance(n, ast.NamedExpr) and isinstance(n.target, ast.Name)}
    locals_ = {x for x in locals_ if (x in outside or x not in comp_only)} - globals_ - params - walrus
    for n in walk_local(fnode):
        if isinstance(n, ast.ExceptHandler) and n.name:
            locals_.add(n.name)
    if not locals_:
        return []

    class Dom(Domain):
        def initial(self):
            return frozenset()

        def on_event(self, node, state):
            yield state, NORMAL
            if isinstance(node, ast.Call):      # any call may raise: handler bodies are reached with what was bound before the call
                yield state, RAISE("BaseException")

        def on_store(self, target, value, state, stmt):
            for t in ast.walk(target) if isinstance(target, ast.AST) else []:
                if isinstance(t, ast.Name):
                    state = state | {t.id}
            return state

        def on_delete(self, target, state, stmt):
            if isinstance(target, ast.Name):
                return state - {target.id}
            return state

        def on_stmt(self, stmt, state):
            if isinstance(stmt, (ast.Import, ast.ImportFrom)):
                return state | {(al.asname or al.name).split(".")[0] for al in stmt.names}
            return state

    it = Interp(Dom(), run.lat, record=True)
    # imports are simple statements handled by s_Pass: add their names through after-the-fact pass
    orig = it.s_Import

    def s_import(node, states, cur_exc):
        out = {}
        for s, tr in states.items():
            out[(s | {(al.asname or al.name).split(".")[0] for al in node.names}, NORMAL)] = tr
        return out
    it.s_Import = it.s_ImportFrom = s_import
    try:
        it.run(fnode)
    except Exception:
        return []
    run.paths += sum(len(v) for v in it.reach.values())

    def header_loads(stmt):
        if isinstance(stmt, (ast.If, ast.While)):
            roots = [stmt.test]
        elif isinstance(stmt, (ast.For, ast.AsyncFor)):
            roots = [stmt.iter]
        elif isinstance(stmt, (ast.With, ast.AsyncWith)):
            roots = [i.context_expr for i in stmt.items]
        elif isinstance(stmt, (ast.Try, ast.FunctionDef, ast.AsyncFunctionDef, ast.ClassDef)):
            roots = []
        else:
            roots = [stmt]
        out = []

        def rec(n, bound):
            if isinstance(n, (ast.ListComp, ast.SetComp, ast.DictComp, ast.GeneratorExp)):
                b = set(bound)
                rec(n.generators[0].iter, b)        # the rest runs zero or more times
                return
            if isinstance(n, ast.Lambda):
                return
            if isinstance(n, ast.BoolOp):          # only the first operand is evaluated unconditionally
                rec(n.values[0], bound)
                return
            if isinstance(n, ast.IfExp):
                rec(n.test, bound)
                return
            if isinstance(n, ast.Name) and isinstance(n.ctx, ast.Load) and n.id not in bound:
                out.append(n)
            for c in ast.iter_child_nodes(n):
                rec(c, bound)
        for r in roots:
            rec(r, set())
        return out

    res = []
    for stmt, states in it.reach.items():
        if not states:
            continue
        stored_here = set()
        if isinstance(stmt, ast.AugAssign):
            pass
        for ld in header_loads(stmt):
            if ld.id in locals_ and (any(ld.id not in st for st in states) if may else all(ld.id not in st for st in states)):
                # `x = f(x)` loads x before storing: still unbound; but skip names stored earlier in the same statement (walrus)
                res.append((ld.id, ld))
    seen = set()
    out = []
    for name, node in sorted(res, key=lambda r: (r[1].lineno, r[1].col_offset)):
        if (name, node.lineno) not in seen:
            seen.add((name, node.lineno))
            out.append((name, node))
    return out
