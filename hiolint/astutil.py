"""Small AST helpers shared by the rules."""
import ast
from .loader import _clone

from .index import dotted, walk_local


def is_self_call(node, name=None):
    """node is Call `self.<name>(...)` -> method name or None."""
    if isinstance(node, ast.Call) and isinstance(node.func, ast.Attribute) \
            and isinstance(node.func.value, ast.Name) and node.func.value.id == "self":
        if name is None or node.func.attr == name or (isinstance(name, (set, tuple, list, frozenset)) and node.func.attr in name):
            return node.func.attr
    return None


def method_call(node):
    """Call `<recv>.<meth>(...)` -> (dotted recv or None, meth) else None."""
    if isinstance(node, ast.Call) and isinstance(node.func, ast.Attribute):
        return dotted(node.func.value), node.func.attr
    return None


def call_name(node):
    if isinstance(node, ast.Call):
        return dotted(node.func)
    return None


def calls_in(node, local=True):
    it = walk_local(node) if (local and hasattr(node, "body") and isinstance(node.body, list)
                              and isinstance(node, (ast.FunctionDef, ast.AsyncFunctionDef))) else ast.walk(node)
    return [n for n in it if isinstance(n, ast.Call)]


def names_in(node):
    """Dotted names loaded in an expression (self.x.y counted as 'self.x.y' and prefixes)."""
    out = set()
    for n in ast.walk(node) if isinstance(node, ast.AST) else []:
        if isinstance(n, ast.Name):
            out.add(n.id)
        elif isinstance(n, ast.Attribute):
            d = dotted(n)
            if d:
                out.add(d)
    return out


def parent(node):
    return getattr(node, "_parent", None)


def enclosing(node, types):
    p = parent(node)
    while p is not None and not isinstance(p, types):
        p = parent(p)
    return p


def enclosing_stmt(node):
    while node is not None and not isinstance(node, ast.stmt):
        node = parent(node)
    return node


def ancestors(node):
    p = parent(node)
    while p is not None:
        yield p
        p = parent(p)


def in_subtree(node, root):
    while node is not None:
        if node is root:
            return True
        node = parent(node)
    return False


def branch_of(node, compound):
    """Which field of `compound` (body/orelse/handlers/finalbody) contains node."""
    child = node
    while child is not None and parent(child) is not compound:
        child = parent(child)
    if child is None:
        return None
    for field in ("body", "orelse", "handlers", "finalbody"):
        if child in getattr(compound, field, []):
            return field
    if child is getattr(compound, "test", None):
        return "test"
    return None


def find_stmts(fnode, pred):
    return [n for n in walk_local(fnode) if isinstance(n, ast.stmt) and pred(n)]


def loops_in(fnode):
    return [n for n in walk_local(fnode) if isinstance(n, (ast.While, ast.For, ast.AsyncFor))]


def const_value(node, default=None):
    if isinstance(node, ast.Constant):
        return node.value
    return default


def unparse(node):
    try:
        return ast.unparse(node)
    except Exception:
        return ast.dump(node)


def assigned_names(target):
    out = []
    if isinstance(target, ast.Name):
        out.append(target.id)
    elif isinstance(target, (ast.Tuple, ast.List)):
        for e in target.elts:
            out.extend(assigned_names(e))
    elif isinstance(target, ast.Starred):
        out.extend(assigned_names(target.value))
    return out


def kwarg(call, name):
    for k in call.keywords:
        if k.arg == name:
            return k.value
    return None


def arg_or_kw(call, pos, name):
    """Value bound to parameter given as positional index pos (after self) or keyword name."""
    v = kwarg(call, name)
    if v is not None:
        return v
    if pos is not None and pos < len(call.args) and not any(isinstance(a, ast.Starred) for a in call.args[:pos + 1]):
        return call.args[pos]
    return None


def local_names(fnode):
    """Names bound in the function (any scope below it) that are not parameters: their spelling is not part of the interface."""
    a = fnode.args
    params = {x.arg for x in a.posonlyargs + a.args + a.kwonlyargs}
    if a.vararg:
        params.add(a.vararg.arg)
    if a.kwarg:
        params.add(a.kwarg.arg)
    out = set()
    for n in ast.walk(fnode):
        if isinstance(n, ast.Name) and isinstance(n.ctx, (ast.Store, ast.Del)):
            out.add(n.id)
        elif isinstance(n, ast.ExceptHandler) and n.name:
            out.add(n.name)
    return out - params


class _Blank(ast.NodeTransformer):
    def __init__(self, names):
        self.names = names

    def visit_Name(self, n):
        return ast.copy_location(ast.Name("_" if n.id in self.names else n.id, n.ctx), n)


def keytext(f, node):
    """Source text of `node` for use inside an obligation key: locals of the enclosing function are blanked (`_`), so that the
    key of a construct does not change when a local is renamed.  `f` is a FuncInfo or a FunctionDef node."""
    import copy
    fnode = getattr(f, "node", f)
    if isinstance(node, str):
        try:
            body = ast.parse(node).body
        except SyntaxError:
            return node
        if len(body) != 1:
            return node
        node = body[0].value if isinstance(body[0], ast.Expr) else body[0]
    return ast.unparse(_Blank(local_names(fnode)).visit(_clone(node)))


class _Alpha(ast.NodeTransformer):
    def __init__(self, ren):
        self.ren = ren

    def visit_Name(self, n):
        return ast.copy_location(ast.Name(self.ren.get(n.id, n.id), n.ctx), n)


def alpha(node, ren):
    """Copy of node with the locals in `ren` renamed to role names: comparisons are made on roles, never on spellings."""
    import copy
    return ast.fix_missing_locations(_Alpha(ren).visit(_clone(node)))


FLIPPED = {"Lt": "Gt", "Gt": "Lt", "LtE": "GtE", "GtE": "LtE", "Eq": "Eq", "NotEq": "NotEq", "Is": "Is", "IsNot": "IsNot"}


def oriented(cmp, left_pred):
    """(left, opname, right) of a single-operator comparison, oriented so that left_pred(left) holds: `0 > i` is read as `i < 0`.
    Returns None when neither orientation fits.  Recognisers must not depend on which operand the author wrote first."""
    if not (isinstance(cmp, ast.Compare) and len(cmp.ops) == 1):
        return None
    l, r, op = cmp.left, cmp.comparators[0], type(cmp.ops[0]).__name__
    if left_pred(l):
        return l, op, r
    if op in FLIPPED and left_pred(r):
        return r, FLIPPED[op], l
    return None


def flat(block):
    """Statements of a block in execution order with guard chains linearised: the loader turns a leaving guard followed by REST into an
    if/else (with a positive test), so REST sits in whichever branch does not leave.  Rules that scan "the statements of this block" want
    the sequence the author wrote: yields the guard `If` itself and then the statements of its non-leaving branch (recursively)."""
    jumps = (ast.Raise, ast.Return, ast.Break, ast.Continue)
    for st in block:
        yield st
        if isinstance(st, ast.If) and st.orelse and st.body:
            b_leaves = isinstance(st.body[-1], jumps)
            o_leaves = isinstance(st.orelse[-1], jumps)
            if b_leaves and not o_leaves:
                yield from flat(st.orelse)
            elif o_leaves and not b_leaves:
                yield from flat(st.body)
            elif b_leaves and o_leaves and isinstance(st.body[-1], (ast.Raise,)) and not isinstance(st.orelse[-1], ast.Raise):
                yield from flat(st.orelse)
            elif b_leaves and o_leaves and isinstance(st.orelse[-1], (ast.Raise,)) and not isinstance(st.body[-1], ast.Raise):
                yield from flat(st.body)


def guard_atoms(test, taken, ren=None):
    """Atomic conditions known to hold when `test` is taken / not taken, as texts ("X" or "not X"): `not` is pushed inwards, a taken
    `and` and a not-taken `or` are split (the other directions give one composite text)."""
    t, pol = test, taken
    while isinstance(t, ast.UnaryOp) and isinstance(t.op, ast.Not):
        t, pol = t.operand, not pol
    if isinstance(t, ast.BoolOp) and ((isinstance(t.op, ast.And) and pol) or (isinstance(t.op, ast.Or) and not pol)):
        out = []
        for v in t.values:
            out += guard_atoms(v, pol, ren)
        return out
    if isinstance(t, ast.Compare) and len(t.ops) == 1 and not pol:
        flip = {ast.In: ast.NotIn, ast.NotIn: ast.In, ast.Is: ast.IsNot, ast.IsNot: ast.Is, ast.Eq: ast.NotEq, ast.NotEq: ast.Eq}
        if type(t.ops[0]) in flip:
            t = ast.Compare(left=t.left, ops=[flip[type(t.ops[0])]()], comparators=t.comparators)
            pol = True
    txt = ast.unparse(alpha(t, ren) if ren else t)
    return [txt if pol else "not " + txt]
