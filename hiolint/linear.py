"""E5 - linear forms and canonical comparisons.

linform(expr) -> {symbol: coeff, 1: const} or None when not linear.
Symbols are dotted names ('self._stop', 'now'); float()/int()/abs-free casts are
transparent; names can be substituted through `env` (name -> expr or linform).
"""
import ast
from fractions import Fraction

from .index import dotted

TRANSPARENT = {"float", "int"}


def _add(a, b, sign=1):
    out = dict(a)
    for k, v in b.items():
        out[k] = out.get(k, 0) + sign * v
    return {k: v for k, v in out.items() if v != 0}


def _scale(a, c):
    return {k: v * c for k, v in a.items() if v * c != 0}


def linform(e, env=None, sym=None):
    """sym: optional callable(node)->symbol str for non-name leaves (e.g. calls)."""
    env = env or {}
    if isinstance(e, dict):
        return e
    if isinstance(e, ast.Constant):
        if isinstance(e.value, bool) or not isinstance(e.value, (int, float)):
            return None
        return {1: Fraction(e.value).limit_denominator(10**9)} if e.value != 0 else {}
    if isinstance(e, (ast.Name, ast.Attribute)):
        d = dotted(e)
        if d is None:
            s = sym(e) if sym else None
            return {s: 1} if s else None
        if d in env:
            v = env[d]
            return linform(v, {k: w for k, w in env.items() if k != d}, sym) if not isinstance(v, dict) else v
        return {d: 1}
    if isinstance(e, ast.UnaryOp):
        v = linform(e.operand, env, sym)
        if v is None:
            return None
        if isinstance(e.op, ast.USub):
            return _scale(v, -1)
        if isinstance(e.op, ast.UAdd):
            return v
        return None
    if isinstance(e, ast.BinOp):
        l, r = linform(e.left, env, sym), linform(e.right, env, sym)
        if l is None or r is None:
            return None
        if isinstance(e.op, ast.Add):
            return _add(l, r)
        if isinstance(e.op, ast.Sub):
            return _add(l, r, -1)
        if isinstance(e.op, ast.Mult):
            if set(l) <= {1}:
                return _scale(r, l.get(1, 0))
            if set(r) <= {1}:
                return _scale(l, r.get(1, 0))
            return None
        if isinstance(e.op, ast.Div):
            if set(r) <= {1} and r.get(1, 0) != 0:
                return _scale(l, Fraction(1) / r[1])
            return None
        return None
    if isinstance(e, ast.Call):
        name = dotted(e.func)
        if name in TRANSPARENT and len(e.args) == 1 and not e.keywords:
            return linform(e.args[0], env, sym)
        s = sym(e) if sym else None
        return {s: 1} if s else None
    if isinstance(e, ast.IfExp):
        return None
    s = sym(e) if sym else None
    return {s: 1} if s else None


def show(lf):
    if lf is None:
        return "<nonlinear>"
    parts = []
    for k in sorted(lf, key=lambda x: (x == 1, str(x))):
        v = lf[k]
        c = ("%+g" % float(v))
        parts.append(c if k == 1 else ("%s*%s" % (c, k) if abs(v) != 1 else ("+" if v > 0 else "-") + str(k)))
    return " ".join(parts) or "0"


FLIP = {"Lt": "Gt", "LtE": "GtE", "Gt": "Lt", "GtE": "LtE", "Eq": "Eq", "NotEq": "NotEq"}
NEG = {"Lt": "GtE", "LtE": "Gt", "Gt": "LtE", "GtE": "Lt", "Eq": "NotEq", "NotEq": "Eq"}


def canon_compare(test, env=None, sym=None):
    """`a OP b` -> (linform(a-b) normalised so the smallest symbol has coeff > 0, OP') or None."""
    if isinstance(test, ast.UnaryOp) and isinstance(test.op, ast.Not):
        r = canon_compare(test.operand, env, sym)
        if r is None:
            return None
        return r[0], NEG[r[1]]
    if not (isinstance(test, ast.Compare) and len(test.ops) == 1):
        return None
    op = type(test.ops[0]).__name__
    if op not in FLIP:
        return None
    l, r = linform(test.left, env, sym), linform(test.comparators[0], env, sym)
    if l is None or r is None:
        return None
    d = _add(l, r, -1)
    syms = sorted(k for k in d if k != 1)
    if syms and d[syms[0]] < 0:
        d = _scale(d, -1)
        op = FLIP[op]
    return d, op


def same(a, b):
    return a is not None and b is not None and {k: v for k, v in a.items() if v} == {k: v for k, v in b.items() if v}
