"""C14 - HTTP requests built by the client are recovered exactly by the server (DESIGN 2.C14)."""
import ast
from ..loader import _clone

from ..core import Mutant, norm
from ..httpx import HT, HS, HC
from ..astutil import method_call, unparse, parent
from ..index import dotted, walk_local

EXPLANATION = ("C14: writer/reader codec agreement from a frozen inverse table (quote<->unquote, quote_plus<->unquote_plus, "
               "encode(c)<->decode(c), b': ' join <-> split(': ',1)): the request path is quoted by Requester.build and "
               "unquoted by Requestant.parseHead (PATH_INFO re-quoted); every component written into the query string (keys "
               "and values) passes an encoder whose inverse the readers apply to the same component; the header line "
               "delimiter and charset agree; Content-Length is len() of the very body object sent; buildEnviron maps each "
               "CGI key from exactly the corresponding Requestant field.")
ASSUMPTIONS = ["recovery for all strings is not decided, only that writer and reader apply inverse codecs to the same components"]
INVERSE = {"quote": "unquote", "quote_plus": "unquote_plus"}


def tail(name):
    return (name or "").split(".")[-1]


def wrappers(e):
    """Chain of call names wrapped around the innermost name: quote_plus(str(val)) -> (['quote_plus','str'], 'val')."""
    chain = []
    while isinstance(e, ast.Call) and len(e.args) >= 1:
        chain.append(tail(dotted(e.func)))
        e = e.args[0]
    return chain, dotted(e)


def ancestors(n):
    p = parent(n)
    while p is not None:
        yield p
        p = parent(p)


class _Alpha(ast.NodeTransformer):
    def __init__(self, ren):
        self.ren = ren

    def visit_Name(self, n):
        return ast.copy_location(ast.Name(self.ren.get(n.id, n.id), n.ctx), n)


def alpha(node, ren):
    """copy of node with locals renamed to role names (K, V, E): comparisons are made on roles, not spellings"""
    import copy
    return ast.fix_missing_locations(_Alpha(ren).visit(_clone(node)))


def check(run):
    ix = run.ix
    build = ix.func(HC, "Requester.build")
    head = ix.func(HS, "Requestant.parseHead")
    env = ix.func(HS, "Server.buildEnviron")
    # R1 path
    enc = [n for n in walk_local(build.node) if isinstance(n, ast.Assign) and isinstance(n.targets[0], ast.Name)
           and isinstance(n.value, ast.Call) and tail(dotted(n.value.func)) in INVERSE]
    # the local holding the quoted path is the quoted local that is formatted (with the query) into the request target
    fmtargs = {dotted(a) for n in walk_local(build.node) if isinstance(n, ast.Call) and isinstance(n.func, ast.Attribute) and n.func.attr == "format"
               for a in n.args}
    enc = [n for n in enc if n.targets[0].id in fmtargs]
    pathvar = enc[0].targets[0].id if enc else None
    wenc = tail(dotted(enc[0].value.func)) if enc else None
    dec = [n for n in walk_local(head.node) if isinstance(n, ast.Assign) and dotted(n.targets[0]) == "self.path"]
    rdec = tail(dotted(dec[0].value.func)) if dec and isinstance(dec[0].value, ast.Call) else None
    ok = wenc is not None and INVERSE.get(wenc) == rdec
    run.ob("C14.R1", "%s:path-codec-agreement" % HC, ok, run.site(head, dec[0]) if dec else run.site(head),
           "" if ok else "request path is written with %s and read with %s (inverse of the writer is %s)" % (wenc, rdec, INVERSE.get(wenc)))
    used = any(isinstance(n, ast.Call) and isinstance(n.func, ast.Attribute) and n.func.attr == "format" and any(pathvar and dotted(a) == pathvar for a in n.args) for n in walk_local(build.node))
    run.ob("C14.R1", "%s:quoted-path-is-sent" % build.fq, used, run.site(build), "" if used else "the quoted path is not what is formatted into the request line")
    pinfo = [n for n in walk_local(env.node) if isinstance(n, ast.Assign) and isinstance(n.targets[0], ast.Subscript)
             and getattr(n.targets[0].slice, "value", None) == "PATH_INFO"]
    ok = bool(pinfo) and isinstance(pinfo[0].value, ast.Call) and tail(dotted(pinfo[0].value.func)) == wenc \
        and dotted(pinfo[0].value.args[0]) == "requestant.path"
    run.ob("C14.R1", "%s:PATH_INFO-requoted" % env.fq, ok, run.site(env, pinfo[0]) if pinfo else run.site(env),
           "" if ok else "PATH_INFO must be the re-quoted requestant.path")
    # the inverse table holds for the default safe set only: unquote() undoes every %XX, so the writer must escape '%' itself
    qcalls = [(build, n) for n in walk_local(build.node) if isinstance(n, ast.Call) and tail(dotted(n.func)) in INVERSE] + \
             [(env, n) for n in walk_local(env.node) if isinstance(n, ast.Call) and tail(dotted(n.func)) in INVERSE] + \
             [(g, n) for g in (ix.func(HT, "updateQargsQuery"),) for n in walk_local(g.node) if isinstance(n, ast.Call) and tail(dotted(n.func)) in INVERSE]
    for g, n in qcalls:
        safe = next((k.value for k in n.keywords if k.arg == "safe"), n.args[1] if len(n.args) > 1 else None)
        if safe is not None and not isinstance(safe, ast.Constant):
            run.inconclusive_at("C14.R1", run.site(g, n), "`%s`: safe= is not a literal" % unparse(n))
            continue
        sv = safe.value if safe is not None else "/"
        sv = sv.decode("latin-1") if isinstance(sv, bytes) else sv
        ok = "%" not in sv
        run.ob("C14.R1", "%s:%s-escapes-percent" % (g.fq, tail(dotted(n.func))), ok, run.site(g, n),
               "" if ok else "`%s` leaves '%%' unescaped (safe=%r) while the reader unquotes every %%XX: a literal '%%41' in the component is "
               "received as 'A'" % (unparse(n), sv))
    run.floor("C14.R1", 6)

    # R2 query components
    uq = ix.func(HT, "updateQargsQuery")
    comp = [n for n in walk_local(uq.node) if isinstance(n, ast.ListComp)]
    wcodec = {}
    site = run.site(uq)
    for c in comp:
        if isinstance(c.elt, ast.Call) and isinstance(c.elt.func, ast.Attribute) and c.elt.func.attr == "format":
            tgt = [x.id for x in ast.walk(c.generators[0].target) if isinstance(x, ast.Name)]
            site = run.site(uq, c)
            for a, role in zip(c.elt.args, ("key", "value")):
                chain, name = wrappers(a)
                wcodec[role] = next((x for x in chain if x in INVERSE), None)
    for role in ("key", "value"):
        ok = wcodec.get(role) is not None
        run.ob("C14.R2", "%s:writer-encodes-%s" % (uq.fq, role), ok, site,
               "" if ok else "query %ss are written into the '&'/'=' delimited query string without percent-encoding: a %s containing "
               "'&', '=', '#' or a space changes the arguments (and the fragment) the server sees" % (role, role))
    # readers: updateQargsQuery parse branch and parseQuery
    for rname in ("updateQargsQuery", "parseQuery"):
        rf = ix.func(HT, rname)
        decs = {}
        for n in walk_local(rf.node):
            if isinstance(n, ast.Assign) and isinstance(n.targets[0], ast.Name) \
                    and isinstance(n.value, ast.Call) and tail(dotted(n.value.func)) in INVERSE.values():
                decs.setdefault(n.targets[0].id, set()).add(tail(dotted(n.value.func)))
        # roles by use: the reader stores `<result>[K] = V`; K is the key local, V the value local
        kv = {(n.targets[0].slice.id, n.value.id) for n in walk_local(rf.node) if isinstance(n, ast.Assign)
              and isinstance(n.targets[0], ast.Subscript) and isinstance(n.targets[0].slice, ast.Name) and isinstance(n.value, ast.Name)}
        if len(kv) != 1:
            run.inconclusive_at("C14.R2", run.site(rf), "%s: expected one `<dict>[key] = val` store of two locals, found %d" % (rname, len(kv)))
            continue
        kvar, vvar = sorted(kv)[0]
        for role, var in (("key", kvar), ("value", vvar)):
            want = INVERSE.get(wcodec.get(role))
            got = decs.get(var, set())
            ok = want is not None and got == {want}
            run.ob("C14.R2", "%s:reader-decodes-%s" % (rf.fq, role), ok, run.site(rf),
                   "" if ok else "%s decodes query %ss with %s, the writer used %s (inverse %s)" % (rname, role, sorted(got) or "nothing", wcodec.get(role), want))
    run.floor("C14.R2", 6)

    # R3 header line
    ph = ix.func(HT, "packHeader")
    pl = ix.func(HT, "parseLeader")
    joins = [n for n in walk_local(ph.node) if isinstance(n, ast.Constant) and n.value == b": "]
    splits = [n for n in walk_local(pl.node) if isinstance(n, ast.Call) and isinstance(n.func, ast.Attribute) and n.func.attr == "split"
              and n.args and getattr(n.args[0], "value", None) == ": " and len(n.args) > 1 and getattr(n.args[1], "value", None) == 1]
    run.ob("C14.R3", "%s:header-delimiter-agreement" % HT, bool(joins) and bool(splits), run.site(pl),
           "" if joins and splits else "packHeader joins name and value with b': ' (found=%s) and parseLeader must split(': ', 1) (found=%s)" % (bool(joins), bool(splits)))
    wcs = {n.args[0].value.lower() for n in walk_local(ph.node) if isinstance(n, ast.Call) and isinstance(n.func, ast.Attribute)
           and n.func.attr == "encode" and n.args and isinstance(n.args[0], ast.Constant)
           and isinstance(n.func.value, ast.Name) and n.func.value.id != ph.params()[0][0]
           and any(isinstance(a, (ast.For, ast.ListComp, ast.GeneratorExp)) for a in ancestors(n))}
    rcs = {n.args[0].value.lower() for n in walk_local(pl.node) if isinstance(n, ast.Call) and isinstance(n.func, ast.Attribute)
           and n.func.attr == "decode" and n.args and isinstance(n.args[0], ast.Constant)}
    ok = wcs == rcs and len(wcs) == 1
    run.ob("C14.R3", "%s:header-charset-agreement" % HT, ok, run.site(pl), "" if ok else "header values are encoded with %s and decoded with %s" % (sorted(wcs), sorted(rcs)))
    run.floor("C14.R3", 2)

    # R4 content-length
    cl = [n for n in walk_local(build.node) if isinstance(n, ast.Call) and tail(dotted(n.func)) == "packHeader" and n.args
          and getattr(n.args[0], "value", "") == "Content-Length"]
    ok = False
    if cl:
        v = cl[0].args[1]
        chain, name = wrappers(v)
        sent = [n for n in walk_local(build.node) if isinstance(n, ast.Assign) and dotted(n.targets[0]) == "self.msg"]
        body_sent = bool(sent) and isinstance(sent[0].value, ast.BinOp) and dotted(sent[0].value.right) == name
        guard = parent(cl[0])
        while guard is not None and not isinstance(guard, ast.If):
            guard = parent(guard)
        caller = guard is not None and "content-length" in unparse(guard.test) and "not in" in unparse(guard.test)
        ok = chain == ["str", "len"] and body_sent and caller
    run.ob("C14.R4", "%s:content-length-is-len-of-sent-body" % build.fq, ok, run.site(build, cl[0]) if cl else run.site(build),
           "" if ok else "Content-Length must be str(len(body)) of the body object appended to the message, added only when the caller supplied none")
    run.floor("C14.R4", 1)

    # R5 environ mapping
    want = {"REQUEST_METHOD": "requestant.method", "QUERY_STRING": "requestant.query", "PATH_INFO": "quote(requestant.path)",
            "CONTENT_TYPE": "requestant.headers.get('content-type', '')", "CONTENT_LENGTH": "str(requestant.length)",
            "wsgi.input": "io.BytesIO(requestant.body)"}
    got = {}
    rets = {dotted(n.value) for n in walk_local(env.node) if isinstance(n, ast.Return)}
    if len(rets) != 1 or None in rets:
        run.inconclusive_at("C14.R5", run.site(env), "buildEnviron no longer returns one named dict")
        return
    envvar = sorted(rets)[0]
    for n in walk_local(env.node):
        if isinstance(n, ast.Assign) and isinstance(n.targets[0], ast.Subscript) and dotted(n.targets[0].value) == envvar \
                and isinstance(n.targets[0].slice, ast.Constant):
            got[n.targets[0].slice.value] = (unparse(n.value), n)
    for k, v in sorted(want.items()):
        g = got.get(k)
        deps = {dotted(x) for x in ast.walk(g[1].value) if isinstance(x, ast.Attribute)} if g else set()
        field = v.split("requestant.")[1].split(")")[0].split(".")[0].split("(")[0] if "requestant." in v else None
        ok = g is not None and ("requestant." + field) in {d for d in deps if d} | {d.rsplit(".", 1)[0] for d in deps if d and d.count(".") > 1}
        if ok and k == "QUERY_STRING":
            ok = dotted(g[1].value) == "requestant.query"        # left quoted, as WSGI requires
        if ok and k == "CONTENT_LENGTH":
            ok = isinstance(g[1].value, ast.Call) and dotted(g[1].value.func) == "str"
        run.ob("C14.R5", "%s:environ:%s" % (env.fq, k), ok, run.site(env, g[1]) if g else run.site(env),
               "" if ok else "environ['%s'] is `%s`, expected a value taken from requestant.%s (%s)" % (k, g[0] if g else None, field, v))
        run.rows += 1
    loops = [n for n in walk_local(env.node) if isinstance(n, ast.For) and "requestant.headers" in unparse(n.iter)]
    ok = False
    for lp in loops:
        if not (isinstance(lp.target, ast.Tuple) and len(lp.target.elts) == 2 and all(isinstance(e, ast.Name) for e in lp.target.elts)):
            continue
        ren = {lp.target.elts[0].id: "K", lp.target.elts[1].id: "V", envvar: "E"}
        txt = [unparse(alpha(st, ren)).replace('"', "'") for st in lp.body]
        ok = any(t.startswith("E[") and t.endswith("] = V") for t in txt) and \
            any("'HTTP_' + K.replace('-', '_').upper()" in t or "'HTTP_' + K.upper().replace('-', '_')" in t for t in txt)
    run.ob("C14.R5", "%s:environ:HTTP_*" % env.fq, ok, run.site(env, loops[0]) if loops else run.site(env),
           "" if ok else "one HTTP_<NAME> entry per request header (dashes to underscores, upper case) is required")
    run.floor("C14.R5", 7)


MUTANTS = [
    Mutant("path-quote-keeps-percent", HC, "Requester.build", "        path = quote(path)\n", "        path = quote(path, safe=\"/%\")\n", {"C14.R1"}),
    Mutant("silent-path-quote-explicit-default-safe", HC, "Requester.build", "        path = quote(path)\n", "        path = quote(path, safe=\"/\")\n", silent=True),
    Mutant("drop-path-quote", HC, "Requester.build", "        path = quote(path)\n", "", {"C14.R1"}, canary=True),
    Mutant("reader-unquote-plus-path", HS, "Requestant.parseHead", "self.path = unquote(pathSplits.path)", "self.path = unquote_plus(pathSplits.path)", {"C14.R1"}, canary=True),
    Mutant("content-length-plus-one", HC, "Requester.build", "str(len(body))", "str(len(body) + 1)", {"C14.R4"}, canary=True),
    Mutant("content-length-of-self-body", HC, "Requester.build", "packHeader(u'Content-Length', str(len(body)))", "packHeader(u'Content-Length', str(len(self.body)))", {"C14.R4"}),
    Mutant("header-join-no-space", HT, "packHeader", "return (name + b': ' + value)", "return (name + b':' + value)", {"C14.R3"}, canary=True),
    Mutant("header-decode-utf8", HT, "parseLeader", "line = line.decode('iso-8859-1')", "line = line.decode('utf-8')", {"C14.R3"}),
    Mutant("reintroduce-raw-keys", HT, "updateQargsQuery", "format(quote_plus(str(key)), quote_plus(str(val)))", "format(key, quote_plus(str(val)))", {"C14.R2"}, canary=True),
    Mutant("reader-unquote-values", HT, "updateQargsQuery", "                    val = unquote_plus(val)", "                    val = unquote(val)", {"C14.R2"}),
    Mutant("environ-query-unquoted", HS, "Server.buildEnviron", "environ['QUERY_STRING'] = requestant.query ", "environ['QUERY_STRING'] = unquote(requestant.query) ", {"C14.R5"}),
    Mutant("environ-method-const", HS, "Server.buildEnviron", "environ['REQUEST_METHOD'] = requestant.method ", "environ['REQUEST_METHOD'] = 'GET' ", {"C14.R5"}, canary=True),
    Mutant("environ-pathinfo-raw", HS, "Server.buildEnviron", "environ['PATH_INFO'] = quote(requestant.path) ", "environ['PATH_INFO'] = requestant.url ", {"C14.R1", "C14.R5"}),
    Mutant("silent-percent-format-header", HT, "packHeader", "return (name + b': ' + value)", "return b': '.join((name, value))", silent=True),
]
