"""C08 - timers measure elapsed tyme exactly and restart losslessly (DESIGN 2.C08)."""
from ..core import Mutant
from .. import timers

EXPLANATION = ("C08: linear forms of elapsed (now - start), remaining (stop - now), expired (now - stop >= 0), duration, "
               "start (stop = start + duration, default duration kept, start = given or now) and restart (new start = "
               "old stop) for Tymer, Timer, MonoTimer, AsyncTimer, each against its own clock read; MonoTimer.latest "
               "shifts _start,_stop,_last together on a backward jump; MonoTimer.elapsed/expired evaluate the side-effecting getter "
               ".latest before they read the attributes it shifts (evaluation order).")
ASSUMPTIONS = ["floating point rounding is not decided", "formulas are compared as normalised linear forms, not text"]


def check(run):
    ix = run.ix
    for mod, name in timers.CLASSES:
        cls = ix.cls(mod, name)
        facts = timers.timer_facts(run, cls)
        clock, site = facts.pop("clock")
        run.ob("C08.R1", "%s:%s:clock-identified" % (mod, name), clock is not None, site,
               "" if clock else "cannot identify the clock read of %s.elapsed (expected NOW - self._start)" % name)
        for fname, (ok, site, txt) in sorted(facts.items()):
            run.ob("C08.R1", "%s:%s:%s" % (mod, name, fname), ok, site,
                   "" if ok else "%s.%s has the form `%s` (clock %s)" % (name, fname, txt, clock))
            run.rows += 1
    for name, ok, site, what, tr in timers.retro_facts(run):
        run.ob("C08.R2", "hio.help.timing:MonoTimer.%s" % name, ok, site, what, tr)
    run.floor("C08.R1", 36)
    run.floor("C08.R2", 3)
    facts, written = timers.getter_order_facts(run)
    run.extra["attributes_rewritten_by_MonoTimer.latest"] = written
    for name, ok, site, what in facts:
        run.ob("C08.R3", "hio.help.timing:MonoTimer.%s" % name, ok, site, what)
    run.floor("C08.R3", 2)


T, H = "hio.base.tyming", "hio.help.timing"
MUTANTS = [
    Mutant("tymer-elapsed-reversed", T, "Tymer.elapsed", "self.tyme - self._start", "self._start - self.tyme", {"C08.R1"}, canary=True),
    Mutant("tymer-expired-gt", T, "Tymer.expired", "self.tyme >= self._stop", "self.tyme > self._stop", {"C08.R1"}, canary=True),
    Mutant("tymer-restart-from-start", T, "Tymer.restart", "start=self._stop", "start=self._start", {"C08.R1"}),
    Mutant("tymer-stop-eq-start", T, "Tymer.start", "self._stop = self._start + duration", "self._stop = self._start", {"C08.R1"}),
    Mutant("timer-remaining-elapsed", H, "Timer.remaining", "self._stop - time.time()", "time.time() - self._stop", {"C08.R1"}),
    Mutant("mono-expired-raw-clock", H, "MonoTimer.expired", "self.latest >= self._stop", "time.time() >= self._stop", {"C08.R1"}),
    Mutant("async-restart-now", H, "AsyncTimer.restart", "start=self._stop", "start=None", {"C08.R1"}),
    Mutant("timer-default-duration-zero", H, "Timer.start", "if duration is not None else self.duration", "if duration is not None else 0.0", {"C08.R1"}),
    Mutant("mono-latest-no-stop-shift", H, "MonoTimer.latest", "                self._stop += delta\n", "", {"C08.R2"}, canary=True),
    Mutant("mono-latest-last-only-when-forward", H, "MonoTimer.latest", "        self._last += delta\n", "        if delta >= 0:\n            self._last += delta\n", {"C08.R2"}),
    Mutant("mono-expired-stop-read-first", H, "MonoTimer.expired", "self.latest >= self._stop", "self._stop <= self.latest", {"C08.R3"}, canary=True),
    Mutant("mono-elapsed-start-read-first", H, "MonoTimer.elapsed", "(self.latest - self._start)", "-(self._start - self.latest)", {"C08.R3"}),
    Mutant("silent-elapsed-negated", T, "Tymer.elapsed", "(self.tyme - self._start)", "-(self._start - self.tyme)", silent=True),
    Mutant("silent-expired-flipped", H, "Timer.expired", "time.time() >= self._stop", "self._stop <= time.time()", silent=True),
]
