"""C20 - memos survive segmentation into grams and any delivery order (DESIGN 2.C20)."""
import ast

from ..core import Mutant, norm
from .. import memo
from ..astutil import method_call, unparse, oriented, flat
from ..index import dotted, walk_local

EXPLANATION = ("C20: header layout agreement between rend() (concatenation order code, count/number, mid, [vid], body, [sig]) "
               "and both branches of pick() (slice offsets as linear forms over bz,nz,mz,vz,az; base-2 branch scales all five "
               "sizes alike); code tables: every MemoDex code has a Sizes row, ZeroDex/GramDex/AckDex partition it and pick "
               "dispatches on exactly those three, Pairs maps each zeroth code to the non-zeroth code of equal sizes; first-only "
               "storage guards; cleanup pairing; fuse refuses incomplete sets and concatenates in numeric order; rend numbers "
               "grams from 0; completion memory (pigeonhole necessary condition for exactly-once under duplication).")
ASSUMPTIONS = ["reconstruction under all orders and interleavings is not decided"]
MM = memo.MM


def check(run):
    ix = run.ix
    for k, ok, site, what in memo.layout_facts(run):
        run.ob("C20.R1", "%s:%s" % (MM, k), ok, site, what)
    run.floor("C20.R1", 13)
    # R2 tables
    dex = memo.codex(ix, "MemoGramCodex")
    zero, gram, ack, auth = (memo.codex(ix, n) for n in ("ZeroGramCodex", "GramCodex", "AckCodex", "AuthGramCodex"))
    sizes = memo.sizes_table(ix)
    pairs = memo.pairs_table(ix)
    allc = set(dex.values())
    cm = ix.cls(MM, "Memoer")
    site = "%s:%d (Memoer)" % (cm.module.relpath, cm.node.lineno)
    run.use_module(cm.module)
    for code in sorted(allc):
        ok = code in sizes and set(sizes[code]) == set(memo.SIZES)
        run.ob("C20.R2", "%s:Sizes-row:%s" % (MM, code), ok, site, "" if ok else "gram code %s has no complete Sizes row" % code)
        run.rows += 1
    parts = [set(zero.values()), set(gram.values()), set(ack.values())]
    ok = set().union(*parts) == allc and sum(len(p) for p in parts) == len(allc)
    run.ob("C20.R2", "%s:codex-partition" % MM, ok, site, "" if ok else "ZeroDex, GramDex and AckDex do not partition MemoDex: %s vs %s" % ([sorted(p) for p in parts], sorted(allc)))
    ok = set(pairs) == set(zero.values()) and all(v in set(gram.values()) for v in pairs.values())
    run.ob("C20.R2", "%s:Pairs-domain" % MM, ok, site, "" if ok else "Pairs must map every zeroth code to a non-zeroth code: %s" % pairs)
    for z, n in sorted(pairs.items()):
        ok = z in sizes and n in sizes and all(sizes[z][k] == sizes[n][k] for k in ("bz", "nz", "mz", "az"))
        run.ob("C20.R2", "%s:Pairs-sizes:%s" % (MM, z), ok, site, "" if ok else "paired codes %s/%s disagree on bz/nz/mz/az: %s vs %s" % (z, n, sizes.get(z), sizes.get(n)))
    pick = ix.func(MM, "Memoer.pick")
    disp = {}
    # the gram code is whichever local indexes self.Sizes
    codes = {dotted(n.slice) for n in walk_local(pick.node) if isinstance(n, ast.Subscript) and dotted(n.value) == "self.Sizes"}
    for n in walk_local(pick.node):
        if isinstance(n, ast.Compare) and dotted(n.left) in codes and isinstance(n.ops[0], ast.In) and dotted(n.comparators[0]) in ("ZeroDex", "GramDex", "AckDex"):
            disp.setdefault(dotted(n.comparators[0]), 0)
            disp[dotted(n.comparators[0])] += 1
    ok = disp == {"ZeroDex": 2, "GramDex": 2, "AckDex": 2}
    run.ob("C20.R2", "%s:pick-dispatch" % MM, ok, run.site(pick), "" if ok else "pick() dispatches on %s; expected ZeroDex, GramDex, AckDex in both branches" % disp)
    run.floor("C20.R2", 17)
    # R3 first-only storage
    rx = ix.func(MM, "Memoer._serviceOneReceived")
    facts, consulted = memo.first_only_facts(run, rx)
    for k, ok, site2, what in facts:
        run.ob("C20.R3", "%s:%s" % (rx.fq, k), ok, site2, what)
    run.floor("C20.R3", 4)
    # R4 cleanup pairing
    done = ix.func(MM, "Memoer._serviceOnceRxGrams")
    facts, deleted = memo.completion_facts(run, done)
    for k, ok, site2, what in facts:
        run.ob("C20.R4", "%s:%s" % (done.fq, k), ok, site2, what)
    run.floor("C20.R4", 1)
    # R5 fuse / numbering
    fuse = ix.func(MM, "Memoer.fuse")
    refuse = [n for n in walk_local(fuse.node) if isinstance(n, ast.If) and n.body and isinstance(n.body[-1], ast.Return)
              and getattr(n.body[-1].value, "value", 0) is None]
    gparam, cparam = fuse.params()[0][1:3]
    ok = False
    for c in ast.walk(refuse[0].test) if refuse else ():
        o = oriented(c, lambda e: isinstance(e, ast.Call) and dotted(e.func) == "len" and e.args and dotted(e.args[0]) == gparam) if isinstance(c, ast.Compare) else None
        if o and o[1] == "Lt" and dotted(o[2]) == cparam:
            ok = True
    run.ob("C20.R5", "%s:refuses-incomplete" % fuse.fq, ok, run.site(fuse), "" if ok else "fuse() does not refuse when fewer than cnt grams are present")
    loops = [n for n in walk_local(fuse.node) if isinstance(n, ast.For)]
    result = {dotted(x) for n in walk_local(fuse.node) if isinstance(n, ast.Return) and n.value is not None
              for x in ast.walk(n.value) if isinstance(x, ast.Name)}
    ok = bool(loops) and unparse(loops[0].iter) == "range(%s)" % cparam and any(
        isinstance(c, ast.Call) and (method_call(c) or (None, None))[1] == "extend" and method_call(c)[0] in result
        and unparse(c.args[0]) == "%s[%s]" % (gparam, dotted(loops[0].target))
        for c in ast.walk(loops[0]))
    run.ob("C20.R5", "%s:numeric-order" % fuse.fq, ok, run.site(fuse), "" if ok else "fuse() must concatenate grams[i] for i in range(cnt) (numeric, not dict order)")
    rend = ix.func(MM, "Memoer.rend")
    loop = [n for n in walk_local(rend.node) if isinstance(n, ast.While)]
    inc = bool(loop) and isinstance(loop[0].body[-1], ast.AugAssign) and isinstance(loop[0].body[-1].op, ast.Add) \
        and isinstance(loop[0].body[-1].target, ast.Name) and getattr(loop[0].body[-1].value, "value", None) == 1
    counter = loop[0].body[-1].target.id if inc else None       # the gram number is the local stepped at the end of the loop
    init = any(isinstance(n, ast.Assign) and dotted(n.targets[0]) == counter and getattr(n.value, "value", None) == 0 for n in flat(rend.node.body))
    returned = {dotted(n.value) for n in walk_local(rend.node) if isinstance(n, ast.Return)}
    app = bool(loop) and any(isinstance(s, ast.Expr) and isinstance(s.value, ast.Call) and (method_call(s.value) or (0, 0))[1] == "append"
                             and method_call(s.value)[0] in returned for s in loop[0].body)
    run.ob("C20.R5", "%s:numbers-from-zero" % rend.fq, init and inc and app, run.site(rend),
           "" if init and inc and app else "rend() must number grams 0,1,2.. (gn = 0; one append and gn += 1 per gram)")
    run.floor("C20.R5", 4)
    # rend: the gram count is computed from the byte length of the buffer that is sliced
    segloops = [n for n in walk_local(rend.node) if isinstance(n, ast.While) and isinstance(n.test, ast.Name)
                and any(isinstance(d, ast.Delete) and isinstance(d.targets[0], ast.Subscript) and dotted(d.targets[0].value) == n.test.id for d in ast.walk(n))]
    mparam = segloops[0].test.id if segloops else rend.params()[0][1]       # the buffer that is sliced into grams
    mem_defs = [n for n in flat(rend.node.body) if isinstance(n, ast.Assign) and dotted(n.targets[0]) == mparam]
    ml = [n for n in flat(rend.node.body) if isinstance(n, ast.Assign) and isinstance(n.targets[0], ast.Name) and isinstance(n.value, ast.Call)
          and dotted(n.value.func) == "len" and len(n.value.args) == 1]
    lens_other = [n for n in ml if dotted(n.value.args[0]) != mparam]
    ml = [n for n in ml if dotted(n.value.args[0]) == mparam]
    mlv = ml[0].targets[0].id if ml else None
    # the gram count is the ceil() expression that is later written into the zeroth head
    cnts = [n for n in flat(rend.node.body) if isinstance(n, ast.Assign) and isinstance(n.targets[0], ast.Name)
            and any(isinstance(c, ast.Call) and (dotted(c.func) or "").endswith("ceil") for c in ast.walk(n.value))]
    othervars = {n.targets[0].id for n in lens_other}
    ok = bool(mem_defs) and bool(ml) and "encode" in unparse(mem_defs[0].value) and mem_defs[0].lineno < ml[0].lineno \
        and bool(cnts) and all(any(isinstance(x, ast.Name) and x.id == mlv for x in ast.walk(n.value)) for n in cnts) \
        and not any(isinstance(x, ast.Name) and x.id in othervars for n in cnts for x in ast.walk(n.value))
    run.ob("C20.R5", "%s:count-from-byte-length" % rend.fq, ok, run.site(rend, ml[0]) if ml else run.site(rend),
           "" if ok else "the gram count must be computed from len() of the encoded byte buffer that the loop slices (characters != bytes for non-ASCII memos)")
    # R7 order independence: accepting a gram must not depend on per-memo state written by other grams
    reads = []
    for n in walk_local(pick.node):
        if isinstance(n, ast.Call) and isinstance(n.func, ast.Attribute) and n.func.attr == "get" and dotted(n.func.value) in ("self.vids", "self.counts", "self.rxgs", "self.sources"):
            reads.append(n)
        if isinstance(n, ast.Subscript) and dotted(n.value) in ("self.vids", "self.counts", "self.rxgs", "self.sources") and isinstance(n.ctx, ast.Load):
            reads.append(n)
    ok = not reads
    run.ob("C20.R7", "%s:acceptance-independent-of-other-grams" % pick.fq, ok, run.site(pick, reads[0]) if reads else run.site(pick),
           "" if ok else "pick() decides whether a gram is accepted (signature verification) using `%s`, per-memo state that only an earlier gram of the same memo "
           "writes: a signed non-zeroth gram that arrives before its zeroth gram fails verification and is dropped, so the memo is never "
           "reconstructed under that delivery order" % unparse(reads[0]))
    run.floor("C20.R7", 1)
    # R6 completion memory
    left = sorted(consulted - deleted)
    ok = bool(left)
    run.ob("C20.R6", "%s:completion-memory" % MM, ok, run.site(done),
           "" if ok else "duplicate detection on receive consults only %s, and completion deletes the memo's entry from every one of them: "
           "after a memo is delivered the receiver is back in its initial state, so a later copy of its grams is necessarily "
           "delivered again (not exactly once under duplication)" % sorted(consulted))
    run.extra["mid_keyed_consulted"] = sorted(consulted)
    run.extra["mid_keyed_deleted_on_completion"] = sorted(deleted)
    run.floor("C20.R6", 1)


MUTANTS = [
    Mutant("rend-swap-mid-vid", MM, "Memoer.rend", "                head = zcodeb + gcnt + midb\n                if zvz:\n                    head += vidb\n", "                head = zcodeb + gcnt\n                if zvz:\n                    head += vidb\n                head += midb\n", {"C20.R1"}, canary=True),
    Mutant("pick-mid-offset", MM, "Memoer.pick", "mid = bytes(gram[bz+nz:bz+nz+mz])", "mid = bytes(gram[bz+mz:bz+mz+mz])", {"C20.R1"}, canary=True),
    Mutant("pick-b2-unscaled-vz", MM, "Memoer.pick", "            vz = 3 * vz // 4\n", "", {"C20.R1"}),
    Mutant("drop-gn-guard", MM, "Memoer._serviceOneReceived", "        if gn not in self.rxgs[mid]:  # make idempotent first only no replay\n            self.rxgs[mid][gn] = gram", "        if True:\n            self.rxgs[mid][gn] = gram", {"C20.R3"}, canary=True),
    Mutant("delete-only-rxgs", MM, "Memoer._serviceOnceRxGrams", "                del self.counts[mid]\n", "", {"C20.R4"}),
    Mutant("auth-pair-size-mismatch", MM, "Memoer", "'bAAD': Sizage(bz=4, nz=4, mz=24, vz=0, az=88)", "'bAAD': Sizage(bz=4, nz=4, mz=24, vz=0, az=0)", {"C20.R2"}, canary=True),
    Mutant("fuse-dict-order", MM, "Memoer.fuse", "        for i in range(cnt):  # iterate in numeric order, items are insertion ordered\n            memo.extend(grams[i])", "        for i in grams:\n            memo.extend(grams[i])", {"C20.R5"}),
    Mutant("rend-numbers-from-one", MM, "Memoer.rend", "        gn = 0\n        while memo:", "        gn = 1\n        while memo:", {"C20.R5"}),
    Mutant("count-from-char-length", MM, "Memoer.rend", "        memo = bytearray(memo.encode()) # convert and copy to bytearray\n", "        ml = len(memo)\n        memo = bytearray(memo.encode()) # convert and copy to bytearray\n", {"C20.R5"}),
    Mutant("silent-offset-reordered", MM, "Memoer.pick", "vid = bytes(gram[bz+mz+nz:bz+mz+nz+vz])", "vid = bytes(gram[bz+nz+mz:bz+nz+mz+vz])", silent=True),
]
