"""C30 - running under asyncio gives the same schedule as the plain loop (DESIGN 2.C30)."""
import ast
import re

from ..core import Mutant
from .. import sched
from ..astutil import unparse, flat
from ..index import walk_local

EXPLANATION = ("C30: fact-level sibling agreement between Doist.do and Doist.ado: exit bracketing on every outcome, "
               "done/empty discipline, per-cycle order recur -> empty test -> limit test, limit tymer construction, "
               "pacing structure and duration provenance must be identical under the table time.sleep <-> await "
               "asyncio.sleep, self.timer <-> local AsyncTimer, extra await asyncio.sleep(0) on the non-real branch; "
               "the set-up statements before the try (temp, done, doers, limit, tyme) must be the same.")
ASSUMPTIONS = ["asyncio's own scheduling and CancelledError delivery are not decided"]
M = sched.MOD


def prologue(f):
    """Normalised statements before the main try."""
    out = []
    for st in flat(f.node.body):
        if isinstance(st, ast.Try):
            break
        if isinstance(st, ast.Expr) and isinstance(st.value, ast.Constant):
            continue
        out.append(re.sub(r"__i\d*\b", "", unparse(st)))      # expansion temporaries are numbered per call site
    return tuple(out)


def check(run):
    ix = run.ix
    doist = ix.cls(M, "Doist")
    do, ado = ix.method(doist, "do"), ix.method(doist, "ado")
    fa, fb = {}, {}
    for f, out in ((do, fa), (ado, fb)):
        for fct in sched.bracket_facts(run, f):
            if "CancelledError" in fct.name:
                continue        # only awaits can be cancelled: ado-specific outcome
            out["bracket:" + fct.name] = (fct.ok, fct.site)
        for k, v in sched.runloop_facts(run, f).items():
            if k == "run.pacing":
                # table: extra sleep on the non-real branch of ado
                v = (tuple(sorted({tuple(x for x in seq if not (x == "sleep" and "real?F" in seq)) for seq in v[0]})), v[1])
            out[k] = v
        for k, (ok, site, what) in sched.pacing_facts(run, f).items():
            out[k] = (ok, site)
        out["prologue"] = (prologue(f), run.site(f))
        sig = f.node.args
        out["signature"] = (unparse(sig), run.site(f))
    for name in sorted(set(fa) | set(fb)):
        va, sa = fa.get(name, ("<missing>", ""))
        vb, sb = fb.get(name, ("<missing>", ""))
        ok = va == vb
        run.ob("C30.R1", "%s:Doist.do~ado:%s" % (M, name), ok, sb or sa,
               "" if ok else "do and ado disagree on %s: do has %s, ado has %s" % (name, va, vb))
        run.rows += 1
    run.ob("C30.R1", "%s:Doist.ado:is-coroutine" % M, ado.is_async, run.site(ado), "" if ado.is_async else "ado is not async")
    # ado yields to the event loop every cycle
    awaits = [n for n in walk_local(ado.node) if isinstance(n, ast.Await)]
    run.ob("C30.R1", "%s:Doist.ado:awaits-in-loop" % M, len(awaits) >= 2, run.site(ado),
           "" if len(awaits) >= 2 else "ado no longer awaits in both the real and the non-real branch")
    run.floor("C30.R1", 18)


MUTANTS = [
    Mutant("ado-limit-before-empty", M, "Doist.ado",
           "                    if not self.deeds:  # no deeds\n                        self.done = True\n                        break  # break out of forever loop\n\n                    if self.limit and tymer.expired:  # reached limit before all deeds done\n                        break  # break out of forever loop\n",
           "                    if self.limit and tymer.expired:  # reached limit before all deeds done\n                        break  # break out of forever loop\n\n                    if not self.deeds:  # no deeds\n                        self.done = True\n                        break  # break out of forever loop\n", {"C30.R1"}, canary=True),
    Mutant("ado-no-finally", M, "Doist.ado", "        finally: # finally clause always runs regardless of exception or not.\n            self.exit()", "        except Exception:\n            self.exit()\n            raise", {"C30.R1"}, canary=True),
    Mutant("ado-keeps-deeds", M, "Doist.ado", "            self.doers = list(doers)\n            self.deeds = deque()\n", "            self.doers = list(doers)\n", {"C30.R1"}),
    Mutant("ado-start-not-restart", M, "Doist.ado", "atimer.restart()", "atimer.start()", {"C30.R1"}),
    Mutant("ado-tymer-from-tock", M, "Doist.ado", "tyming.Tymer(tymth=self.tymen(), duration=self.limit)", "tyming.Tymer(tymth=self.tymen(), duration=self.tock)", {"C30.R1"}),
    Mutant("silent-sleep0-placement", M, "Doist.ado", "await asyncio.sleep(0.0)  # allow loop to run ASAP", "await asyncio.sleep(0)", silent=True),
]
