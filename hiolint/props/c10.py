"""C10 - connection-level socket faults never escape servicing (DESIGN 2.C10)."""
import ast

from ..core import Mutant, norm
from .. import tcp
from ..names import unbound_names, definite_unbound_locals
from ..astutil import method_call, unparse, keytext
from ..index import walk_local

EXPLANATION = ("C10: the errno classification in all eight send/receive implementations: cut-off list covers "
               "{ECONNRESET, EPIPE, ENETRESET, ENETUNREACH, EHOSTUNREACH, ENETDOWN, EHOSTDOWN, ETIMEDOUT, ECONNREFUSED} "
               "(+ SSL_ERROR_EOF for TLS), every element has the integer kind of the compared expression, the cut-off arm "
               "marks cutoff and does not raise; TLS handshakes turn OSError/SSLError into closed+aborted; every "
               "per-connection call in a server loop over ixes/cxes is isolated by an OSError handler or its callee "
               "cannot leak OSError; no unbound name in the fault handlers.")
ASSUMPTIONS = ["real peer behaviour is not decided", "errno names are kept symbolic (platform values are not compared)"]
C, S = tcp.CM, tcp.SM


def check(run):
    ix = run.ix
    for mod, name in tcp.SIBLINGS:
        cls = ix.cls(mod, name)
        for meth in ("send", "receive"):
            for fname, ok, site, what in tcp.errno_table_facts(run, cls, meth):
                run.ob("C10.R1", "%s:%s.%s" % (mod, name, fname), ok, site, what)
    run.floor("C10.R1", 8 * 12)
    # R2 handshakes
    hs = {}
    for mod, name in ((S, "RemoterTls"), (C, "ClientTls")):
        f = ix.method(ix.cls(mod, name), "handshake")
        facts = tcp.handshake_facts(run, f, strict=(name == "RemoterTls"))
        hs[f] = name == "RemoterTls" and all(ok for _, ok, _, _, _ in facts)
        for fname, ok, site, what, tr in facts:
            run.ob("C10.R2", "%s:%s" % (f.fq, fname), ok, site, what, tr)
    run.floor("C10.R2", 8)
    # R3 isolation
    n = 0
    for name in ("Server", "ServerTls"):
        cls = ix.cls(S, name)
        for f, loop, cont, names, calls in tcp.connection_loops(run, cls):
            if f.cls is not cls:
                continue
            for call in calls:
                mc = method_call(call)
                if mc[1] in ("getpeername", "close", "wind"):
                    continue
                isolated = tcp.in_try_catching(run, call, loop)
                free = False
                for callee, recv in ix.resolve_call(f, cls, call):
                    if callee in hs and hs[callee]:
                        free = True
                # resolve through the frozen receiver table: cxes hold RemoterTls
                if not free and mc[1] == "handshake":
                    hf = ix.method(ix.cls(S, "RemoterTls"), "handshake")
                    free = hs.get(hf, False)
                ok = isolated or free
                run.ob("C10.R3", "%s:%s" % (f.fq, keytext(f, call)), ok, run.site(f, call),
                       "" if ok else "per-connection call `%s` in the loop over %s is not inside a try that catches OSError: "
                       "a fault on one connection escapes %s and stops servicing the others" % (norm(call), cont, f.qualname))
                n += 1
    run.floor("C10.R3", 3)
    # R5 close() puts the connection state machine back to its start: every underlying state variable that connect()/serviceConnect() test
    # (through self.<x> or through the getter of a property, resolved on the class itself) is stored by close(), directly or through the
    # setter of a property resolved on the same class.  A subclass that overrides a property (ClientTls.connected -> _connected) does not
    # inherit the side effect of the parent's setter.
    for cname in ("Client", "ClientTls"):
        cls = ix.cls(C, cname)

        def underlying(attr, kind):
            """state variables behind self.<attr>: through the getter (reads) or setter (stores) resolved on cls, one level"""
            g = ix.resolve_setter(cls, attr) if kind == "store" else ix.resolve_method(cls, attr)
            if g is not None and (g.is_property or kind == "store"):
                out = set()
                for n in walk_local(g.node):
                    if isinstance(n, ast.Attribute) and isinstance(n.value, ast.Name) and n.value.id == "self" \
                            and isinstance(n.ctx, ast.Store if kind == "store" else ast.Load):
                        out.add(n.attr)
                return out or {attr}
            return {attr}
        tested = set()
        for mname in ("connect", "serviceConnect"):
            g = ix.method(cls, mname)
            for n in walk_local(g.node):
                if isinstance(n, (ast.If, ast.While)):
                    for x in ast.walk(n.test):
                        if isinstance(x, ast.Attribute) and isinstance(x.value, ast.Name) and x.value.id == "self" and x.attr in ("accepted", "connected", "cutoff"):
                            tested |= underlying(x.attr, "load")
        close = ix.method(cls, "close")
        stored = set()
        for n in walk_local(close.node):
            if isinstance(n, ast.Assign):
                for t in n.targets:
                    if isinstance(t, ast.Attribute) and isinstance(t.value, ast.Name) and t.value.id == "self":
                        stored |= underlying(t.attr, "store")
        need = tested - {"cutoff"}
        for var in sorted(need):
            ok = var in stored
            run.ob("C10.R5", "%s:close-resets:%s" % (close.fq, var), ok, run.site(close),
                   "" if ok else "%s.connect()/serviceConnect() test self.%s, but %s (resolved for %s) never stores it: after a connection is closed "
                   "(far side ended the handshake) the next service() skips accept() and works on the closed socket (None.do_handshake -> "
                   "AttributeError out of service())" % (cname, var, close.qualname, cname))
    run.floor("C10.R5", 3)
    # R4 handlers executable: unbound names in the tcp package service paths
    count = 0
    for modname in (C, S):
        for fq, f in sorted(ix.functions.items()):
            if f.module.name != modname or fq.endswith("@setter") or f.cls is None:
                continue
            ub = unbound_names(ix, f)
            handlers = [h for h in walk_local(f.node) if isinstance(h, ast.ExceptHandler)]
            if not handlers and not ub:
                continue
            count += 1
            for nm, node in ub:
                run.ob("C10.R4", "%s:unbound:%s" % (f.fq, nm), False, run.site(f, node),
                       "name `%s` is bound nowhere: executing this statement raises NameError instead of handling the fault" % nm)
            # a local read on a path that never assigned it raises UnboundLocalError out of the service call (path-sensitive, E3)
            mb = definite_unbound_locals(run, f, may=True) if handlers else []
            for nm, node in mb:
                run.ob("C10.R4", "%s:unassigned-on-some-path:%s" % (f.fq, nm), False, run.site(f, node),
                       "local `%s` is read here on a path that has not assigned it (e.g. the fault-handling branch binds a different name): "
                       "UnboundLocalError escapes instead of the fault being handled" % nm)
            if not ub and not mb:
                run.ob("C10.R4", "%s:names-bound" % f.fq, True, run.site(f))
    run.floor("C10.R4", 20)
    if run.tier == "thorough":
        from .. import sweeps
        run.extra["unbound_names_package_wide"] = sweeps.unbound_sweep(run)


MUTANTS = [
    Mutant("clienttls-close-relies-on-parent-setter", C, "ClientTls.close", "            self.accepted = False\n            self.connected = False", "            self.connected = False", {"C10.R5"}),
    Mutant("silent-client-close-relies-on-own-setter", C, "Client.close", "            self.accepted = False\n            self.connected = False", "            self.connected = False", silent=True),
    Mutant("handshake-handler-queries-dead-socket", S, "RemoterTls.handshake", "logger.error(\"OSError during tls handshake of %s with %s.\\n%s\\n\", self.ha, self.ca, ex)", "logger.error(\"OSError during tls handshake of %s with %s.\\n%s\\n\", self.ha, self.cs.getpeername(), ex)", {"C10.R2"}),
    Mutant("clienttls-send-half-renamed-local", C, "ClientTls.send", "            if ex.args[0] in (ssl.SSL_ERROR_WANT_READ, ssl.SSL_ERROR_WANT_WRITE):\n                result = 0", "            if ex.args[0] in (ssl.SSL_ERROR_WANT_READ, ssl.SSL_ERROR_WANT_WRITE):\n                count = 0", {"C10.R4"}),
    Mutant("remoter-drop-econnreset", S, "Remoter.receive", "elif ex.args[0] in (errno.ECONNRESET,\n", "elif ex.args[0] in (\n", {"C10.R1"}, canary=True),
    Mutant("client-cutoff-raises", C, "Client.send", "                self.cutoff = True  # this signals need to close/reopen connection\n                count = 0",
           "                self.cutoff = True  # this signals need to close/reopen connection\n                raise", {"C10.R1"}),
    Mutant("client-eagain-in-cutoff", C, "Client.receive", "                                errno.ECONNREFUSED):", "                                errno.ECONNREFUSED, errno.EAGAIN):", {"C10.R1"}),
    Mutant("reintroduce-clienttls-handshake-raises", C, "ClientTls.handshake", "                self.cutoff = True  # signal far side terminated handshake\n                return False", "                raise", {"C10.R2"}, canary=True),
    Mutant("reintroduce-ssleof-class", C, "ClientTls.send", "ssl.SSL_ERROR_EOF", "ssl.SSLEOFError", {"C10.R1"}),
    Mutant("remotertls-handshake-raises", S, "RemoterTls.handshake", "                self.close()\n                self.aborted = True  # indicate client aborted handshake\n                return  # caller checks .aborted\n\n            else:",
           "                self.close()\n                raise\n\n            else:", {"C10.R2"}, canary=True),
    Mutant("remotertls-aborted-without-close", S, "RemoterTls.handshake", "            logger.error(\"OSError during tls handshake of %s with %s.\\n%s\\n\", self.ha, self.ca, ex)\n            self.close()\n", "", {"C10.R2"}),
    Mutant("receives-drop-try", S, "Server.serviceReceivesAllIx", "            try:\n                ix.serviceReceives()\n            except OSError as ex:\n                logger.error(\"Closing incoming socket on %s.\\n%s\\n\", ix.cs.getpeername(), ex)\n                self.removeIx(ca=ca)  # also closes ix",
           "            ix.serviceReceives()", {"C10.R3"}, canary=True),
    Mutant("reintroduce-sends-unisolated", S, "Server.serviceSendsAllIx", "            try:\n                ix.serviceSends()\n            except OSError as ex:", "            ix.serviceSends()\n            try:\n                pass\n            except OSError as ex:", {"C10.R3"}),
    Mutant("reintroduce-unbound-ix", S, "Server.serviceReceivesIx", "logger.error(\"Closing incoming socket on %s.\\n%s\\n\", ca, ex)", "logger.error(\"Closing incoming socket on %s.\\n%s\\n\", ix.cs.getpeername(), ex)", {"C10.R4"}),
    Mutant("silent-reorder-list", S, "Remoter.send", "elif ex.args[0] in (errno.ECONNRESET,\n                                errno.ENETRESET,", "elif ex.args[0] in (errno.ENETRESET,\n                                errno.ECONNRESET,", silent=True),
]
