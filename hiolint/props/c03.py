"""C03 - virtual-time scheduling follows the documented cycle model (DESIGN 2.C03)."""
import ast

from ..core import Mutant
from .. import sched
from ..absint import Interp
from ..deps import DepDomain, fs
from ..index import dotted, walk_local

EXPLANATION = ("C03: one tick per recur after the once-through loop; marker appended before the loop; due test is "
               "retyme <= current tyme; the tyme sent to a doer is the scheduler's; retyme update dependence sets per "
               "branch (truthy tock: {old retyme, yielded tock}; falsy: {current tyme, own tock}; not due: unchanged); "
               "first due tyme = current tyme; Tymist.tick adds tock to tyme.")
ASSUMPTIONS = ["dependence sets decide which quantities the new retyme is computed from, not the arithmetic itself",
               "float rounding is not decided", "position of an extended doer relative to siblings is not decided"]
M = sched.MOD


def recur_obs(run, rule_prefix, cls):
    facts, syms = sched.recur_facts(run, cls)
    rules = {"recur.marker-before-loop": "R2", "recur.due-test": "R3", "recur.send-value": "R5",
             "recur.send-only-when-due": "R3", "recur.tock-test": "R4"}
    for name, want in sched.EXPECT_RECUR.items():
        val, site = facts[name]
        r = rule_prefix + "." + rules.get(name, "R4")
        ok = val == want
        run.ob(r, "%s:%s.recur:%s" % (M, cls.name, name), ok, site,
               "" if ok else "%s is %s, the cycle model requires %s" % (name, val, want))
    return facts


def check(run):
    ix = run.ix
    doist, dodoer = ix.cls(M, "Doist"), ix.cls(M, "DoDoer")
    for cls in (doist, dodoer):
        recur_obs(run, "C03", cls)
    # R1 one tick per cycle (Doist only; DoDoer must not tick)
    t = sched.tick_facts(run, doist)
    for name, want in (("recur.tick-count", (1,)), ("recur.tick-in-loop", False), ("recur.tick-after-loop", True)):
        val, site = t[name]
        run.ob("C03.R1", "%s:Doist.recur:%s" % (M, name), val == want, site,
               "" if val == want else "%s is %s, expected %s: each cycle must advance tyme by exactly one tock after the loop" % (name, val, want))
    td = sched.tick_facts(run, dodoer)
    val, site = td["recur.tick-count"]
    run.ob("C03.R1", "%s:DoDoer.recur:no-tick" % M, val == (0,), site,
           "" if val == (0,) else "DoDoer.recur advances tyme itself")
    # Tymist.tick: tyme += tock
    tm = "hio.base.tyming"
    tick = ix.func(tm, "Tymist.tick")
    dom = DepDomain()
    stores = []
    orig = dom.on_store

    def on_store(target, value, state, stmt):
        if dotted(target) == "self.tyme":
            stores.append((dom.deps(value, state), stmt))
        return orig(target, value, state, stmt)
    dom.on_store = on_store
    res = Interp(dom, run.lat).run(tick.node)
    run.paths += len(res)
    want = fs("self.tyme", "self.tock", "tock")
    def adds(st):
        # self.tyme += X   or   self.tyme = self.tyme + X  (either operand order)
        if isinstance(st, ast.AugAssign):
            return isinstance(st.op, ast.Add)
        v = st.value if isinstance(st, ast.Assign) else None
        return isinstance(v, ast.BinOp) and isinstance(v.op, ast.Add) and "self.tyme" in (dotted(v.left), dotted(v.right))
    ok = bool(stores) and all(d == want for d, st in stores) and all(adds(st) for d, st in stores)
    run.ob("C03.R1", "%s:Tymist.tick:tyme+=tock" % tm, ok, run.site(tick),
           "" if ok else "Tymist.tick must add the given tock (default self.tock) to self.tyme; found %s" % [sorted(d) for d, s in stores])
    # enter
    for cls in (doist, dodoer):
        e = sched.enter_facts(run, cls)
        val, site = e["enter.first-due"]
        ok = val == (("self.tyme",),)
        run.ob("C03.R4", "%s:%s.enter:first-due" % (M, cls.name), ok, site,
               "" if ok else "first due tyme stored by enter depends on %s, expected the current tyme only" % (val,))
        val, site = e["enter.advances-dog"]
        run.ob("C03.R2", "%s:%s.enter:advances-dog" % (M, cls.name), val == ("advance",), site,
               "" if val == ("advance",) else "enter does not advance the new generator to its first yield")
    run.floor("C03.R1", 5)
    run.floor("C03.R2", 4)
    run.floor("C03.R3", 4)
    run.floor("C03.R4", 12)
    run.floor("C03.R5", 2)


MUTANTS = [
    Mutant("reintroduce-dodoer-asap-from-own-tock", M, "DoDoer.recur", "                        retyme = None  # rerun at next recur whenever that is", "                        retyme = tyme + self.tock", {"C03.R4"}, canary=True),
    Mutant("dodoer-asap-marker-not-resolved", M, "DoDoer.recur", "                if retyme is None:  # rerun asap so base of cumulative retyme is now\n                    retyme = tyme\n", "", {"C03.R3", "C03.R4"}),
    Mutant("doist-due-lt", M, "Doist.recur", "if retyme <= self.tyme:", "if retyme < self.tyme:", {"C03.R3"}, canary=True),
    Mutant("doist-retyme-drift", M, "Doist.recur", "retyme += tock  # cumulative", "retyme = self.tyme + tock  # cumulative", {"C03.R4"}, canary=True),
    Mutant("dodoer-retyme-drift", M, "DoDoer.recur", "retyme += tock  # cumulative", "retyme = tyme + tock  # cumulative", {"C03.R4"}),
    Mutant("doist-tick-in-loop", M, "Doist.recur", "            else:  # not retyme yet\n", "            else:  # not retyme yet\n                self.tick()\n", {"C03.R1"}),
    Mutant("doist-tick-twice", M, "Doist.recur", "        self.tick()  # advance", "        self.tick(); self.tick()  # advance", {"C03.R1"}),
    Mutant("doist-tick-missing", M, "Doist.recur", "        self.tick()  # advance", "        pass  # advance", {"C03.R1"}, canary=True),
    Mutant("doist-first-due-plus-tock", M, "Doist.enter", "deeds.append((dog, self.tyme, doer))", "deeds.append((dog, self.tyme + self.tock, doer))", {"C03.R4"}),
    Mutant("doist-send-retyme", M, "Doist.recur", "tock = dog.send(self.tyme)", "tock = dog.send(retyme)", {"C03.R5"}),
    Mutant("dodoer-asap-uses-doer-tock", M, "DoDoer.recur", "retyme = None  # rerun at next recur whenever that is", "retyme = tyme + doer.tock  # rerun", {"C03.R4"}),
    Mutant("doist-falsy-keeps-retyme", M, "Doist.recur", "retyme = self.tyme + self.tock  # rerun", "retyme = retyme + self.tock  # rerun", {"C03.R4"}),
    Mutant("tymist-tick-assign", "hio.base.tyming", "Tymist.tick", "self.tyme += float(", "self.tyme = float(", {"C03.R1"}),
    Mutant("doist-marker-after", M, "Doist.recur", "        deeds.append((None, None, None))  # append run through once marker\n", "", {"C03.R2"}),
    Mutant("silent-retyme-plus", M, "Doist.recur", "retyme += tock  # cumulative", "retyme = retyme + tock  # cumulative", silent=True),
    Mutant("silent-swap-branches", M, "Doist.recur",
           "                    if not tock:  # tock is None or tock == 0.0 with empty yield tock == None\n                        retyme = self.tyme + self.tock  # rerun at next recur\n                    else:\n                        retyme += tock  # cumulative retyme of doer tock\n",
           "                    if tock:\n                        retyme += tock\n                    else:\n                        retyme = self.tyme + self.tock\n", silent=True),
    Mutant("silent-due-flipped", M, "Doist.recur", "if retyme <= self.tyme:", "if self.tyme >= retyme:", silent=True),
]
