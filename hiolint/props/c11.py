"""C11 - closing a TCP endpoint releases every socket it opened (DESIGN 2.C11)."""
import ast

from ..core import Mutant
from .. import tcp
from ..astutil import method_call, unparse
from ..index import dotted, walk_local

EXPLANATION = ("C11: every container into which tcp.Server / ServerTls store connection objects is closed element by "
               "element by the class's resolved close(); the listen socket is closed and set to None; a subscript store "
               "into such a container is dominated by `key not in container` or by closing the previous occupant; a del "
               "is preceded by close or followed by a transfer; Remoter/Client close() call socket.close() then set it to "
               "None; fresh sockets are created only in open() and internal open() calls follow close(); http.Client."
               "redirect closes the old connector before replacing it.")
ASSUMPTIONS = ["descriptor counts at run time are not decided", "connection containers are recognised from subscript stores of Remoter-typed values"]
C, S = tcp.CM, tcp.SM


def check(run):
    ix = run.ix
    for name in ("Server", "ServerTls"):
        cls = ix.cls(S, name)
        facts, conts = tcp.close_coverage_facts(run, cls)
        for fname, ok, site, what in facts:
            run.ob("C11.R1", "%s:%s:%s" % (S, name, fname), ok, site, what)
        for fname, ok, site, what in tcp.replace_delete_facts(run, cls, set(conts)):
            run.ob("C11.R2", fname, ok, site, what)
    # the `aborted` flag that serviceCxes trusts as "closed" is set only on paths that did close
    hs = ix.method(ix.cls(S, "RemoterTls"), "handshake")
    nf = 0
    for fname, ok, site, what, tr in tcp.flag_implies_closed_facts(run, hs, "self.aborted"):
        run.ob("C11.R2", "%s:%s" % (hs.fq, fname), ok, site, what, tr)
        nf += 1
    run.floor("C11.R1", 5)
    run.floor("C11.R2", 6)
    for mod, name, sock in ((S, "Remoter", "self.cs"), (S, "RemoterTls", "self.cs"), (C, "Client", "self.cs"),
                            (C, "ClientTls", "self.cs"), (S, "Acceptor", "self.ss")):
        f = ix.method(ix.cls(mod, name), "close")
        for fname, ok, site, what in tcp.socket_close_facts(run, f, sock):
            run.ob("C11.R3", "%s:%s" % (f.fq, fname), ok, site, what)
    run.floor("C11.R3", 5)
    for fname, ok, site, what in tcp.open_discipline_facts(run):
        run.ob("C11.R4", fname, ok, site, what)
    # http.Client.redirect closes the old connector before replacing it
    hc = ix.func("hio.core.http.clienting", "Client.redirect")
    stores = [n for n in walk_local(hc.node) if isinstance(n, ast.Assign) and dotted(n.targets[0]) == "self.connector"]
    for st in stores:
        closed_before = any(isinstance(c, ast.Call) and method_call(c) == ("self.connector", "close") and c.lineno < st.lineno
                            for c in walk_local(hc.node))
        run.ob("C11.R4", "%s:connector-replaced-after-close" % hc.fq, closed_before, run.site(hc, st),
               "" if closed_before else "Client.redirect replaces self.connector without closing the old one")
    run.floor("C11.R4", 5)


MUTANTS = [
    Mutant("handshake-aborts-without-close", S, "RemoterTls.handshake", "ex)\n                self.close()\n                self.aborted = True  # indicate client aborted handshake\n                return  # caller checks .aborted\n\n        except OSError", "ex)\n                self.aborted = True  # indicate client aborted handshake\n                return  # caller checks .aborted\n\n        except OSError", {"C11.R2"}),
    Mutant("server-close-no-closeall", S, "Server.close", "        self.closeAllIx()", "        pass", {"C11.R1"}, canary=True),
    Mutant("acceptor-close-no-sockclose", S, "Acceptor.close", "            self.ss.close()  #close socket\n", "", {"C11.R1", "C11.R3"}),
    Mutant("remoter-close-no-sockclose", S, "Remoter.close", "            self.cs.close()  #close socket\n", "", {"C11.R3"}, canary=True),
    Mutant("client-close-keeps-ref", C, "Client.close", "            self.cs = None\n", "", {"C11.R3"}),
    Mutant("removeix-default-noclose", S, "Server.removeIx", "def removeIx(self, ca, close=True):", "def removeIx(self, ca, close=False):", {"C11.R2"}, canary=True),
    Mutant("client-reopen-no-close", C, "Client.reopen", "        self.close()\n", "", {"C11.R4"}, canary=True),
    Mutant("client-accept-fresh-socket", C, "Client.accept", "            self.reopen()\n\n        try:", "            self.cs = socket.socket(socket.AF_INET, socket.SOCK_STREAM)\n\n        try:", {"C11.R4"}),
    Mutant("reintroduce-shutdown-only", S, "Server.serviceAxes", "self.closeIx(ca)  # shutdown and close replaced connection", "self.shutdownIx(ca)", {"C11.R2"}, canary=True),
    Mutant("reintroduce-cxes-overwrite", S, "ServerTls.serviceAxes", "            if ca in self.cxes:  # close replaced connection\n                self.cxes[ca].close()\n", "", {"C11.R2"}),
    Mutant("reintroduce-ixes-overwrite", S, "ServerTls.serviceCxes", "                if ca in self.ixes:  # close replaced connection\n                    self.closeIx(ca)\n", "", {"C11.R2"}),
    Mutant("reintroduce-servertls-no-close", S, "ServerTls.close", "        for cx in self.cxes.values():  # remoter still handshaking\n            cx.close()", "        pass", {"C11.R1"}, canary=True),
    Mutant("servicecxes-drop-unclosed", S, "ServerTls.serviceCxes", "            if cx.aborted:  # handshake completed unsuccessfully", "            if not cx.connected:", {"C11.R2"}),
    Mutant("silent-iterate-list", S, "Server.closeAllIx", "for rm in self.ixes.values():", "for rm in list(self.ixes.values()):", silent=True),
]
