"""C12 - idle HTTP connections time out after the configured tymeout (DESIGN 2.C12)."""
import ast

from ..core import Mutant, norm
from .. import tcp
from ..kwbind import bind_keywords
from ..astutil import method_call, unparse, is_self_call, parent, in_subtree
from ..index import dotted, walk_local

EXPLANATION = ("C12: keyword-binding analysis of the Remoter/RemoterTls constructions in tcp.Server/ServerTls."
               "serviceAxes (the tymeout parameter must be bound to a value derived from the server's tymeout, not "
               "swallowed by Mixin.__init__(**kwa)); Remoter stores it and builds its Tymer from it; the idle test "
               "`ix.tymeout > 0 and ix.tymer.expired` guards closeConnection in http.Server and BareServer; every "
               "receive/send of Remoter and its overrides refreshes the tymer on the data-moved path; refresh() re-arms the "
               "tymer from the current tyme (deadline = now + tymeout, not previous deadline + tymeout); tymeout is "
               "zeroed only under `persisted`.")
ASSUMPTIONS = ["the exact cycle in which an expired connection is closed is not decided"]
S = tcp.SM
H = "hio.core.http.serving"


def check(run):
    ix = run.ix
    # R1 construction sites
    n = 0
    for cname in ("Server", "ServerTls"):
        f = ix.method(ix.cls(S, cname), "serviceAxes")
        for call in [c for c in walk_local(f.node) if isinstance(c, ast.Call)]:
            k = ix.callee_class(f, call)
            if k is None or ix.cls(S, "Remoter") not in k.mro:
                continue
            n += 1
            kws = {kw.arg: kw.value for kw in call.keywords if kw.arg}
            binding, chain = bind_keywords(ix, k, kws)
            run.sites += 1
            tv = kws.get("tymeout")
            ok = tv is not None and binding.get("tymeout", ("", ""))[0] == "named" and "self.tymeout" in {dotted(x) for x in ast.walk(tv)}
            swallowed = sorted(a for a, (kind, where) in binding.items() if kind != "named")
            run.ob("C12.R1", "%s:%s(...):tymeout-bound-from-server" % (f.fq, k.name), ok, run.site(f, call),
                   "" if ok else "the %s constructed for an accepted connection does not get the server's tymeout: parameter "
                   "`tymeout` is %s%s; Remoter.tymeout stays at its class default and the idle test never fires" %
                   (k.name, "not passed" if tv is None else "passed `%s`" % unparse(tv),
                    ("; keywords %s are swallowed by a terminal __init__(**kwa)" % swallowed) if swallowed else ""))
            for a in swallowed:
                if "time" in a or "tyme" in a:
                    run.ob("C12.R1", "%s:%s(...):keyword-%s-not-swallowed" % (f.fq, k.name, a), False, run.site(f, call),
                           "keyword `%s` is accepted by no named parameter along %s and is silently dropped" % (a, " -> ".join(chain)))
    # the http servers hand the configured idle tymeout (their own constructor parameter) to every servant they may build
    tsrv = ix.cls(S, "Server")
    for cname in ("Server", "BareServer"):
        f = ix.method(ix.cls(H, cname), "__init__")
        params = set(f.params()[0]) | set(f.params()[1])
        sites = []
        for call in [c for c in walk_local(f.node) if isinstance(c, ast.Call)]:
            k = ix.callee_class(f, call)
            if k is None or tsrv not in k.mro:
                continue
            tv = next((kw.value for kw in call.keywords if kw.arg == "tymeout"), None)
            ok = isinstance(tv, ast.Name) and tv.id in params and ("tyme" in tv.id or "time" in tv.id)
            sites.append((k.name, unparse(tv) if tv is not None else None))
            run.sites += 1
            run.ob("C12.R1", "%s:%s(...):servant-gets-configured-tymeout" % (f.fq, k.name), ok, run.site(f, call),
                   "" if ok else "the %s servant is built with tymeout=%s instead of the tymeout this server was configured with: connections "
                   "of that kind time out after a different (or the default) idle period" % (k.name, unparse(tv) if tv is not None else "<nothing>"))
        vals = {v for _, v in sites}
        ok = len(sites) >= 2 and len(vals) == 1
        run.ob("C12.R1", "%s:servant-branches-agree" % f.fq, ok, run.site(f),
               "" if ok else "the plain and the TLS servant are configured with different tymeouts: %s" % sites)
    # Remoter.__init__ stores and uses it
    rinit = ix.func(S, "Remoter.__init__")
    stores = {dotted(t): a.value for a in walk_local(rinit.node) if isinstance(a, ast.Assign) for t in a.targets}
    tv = stores.get("self.tymeout")
    ok = tv is not None and "tymeout" in {x.id for x in ast.walk(tv) if isinstance(x, ast.Name)}
    run.ob("C12.R1", "%s:stores-tymeout-parameter" % rinit.fq, ok, run.site(rinit),
           "" if ok else "Remoter.__init__ does not store its tymeout parameter in self.tymeout")
    ty = stores.get("self.tymer")
    # duration is self.tymeout, or the very local that was stored into self.tymeout
    tsrc = dotted(stores.get("self.tymeout")) if stores.get("self.tymeout") is not None else None
    ok = isinstance(ty, ast.Call) and any(kw.arg == "duration" and dotted(kw.value) in ("self.tymeout", tsrc) and dotted(kw.value) for kw in ty.keywords)
    run.ob("C12.R1", "%s:tymer-duration-is-tymeout" % rinit.fq, ok, run.site(rinit),
           "" if ok else "Remoter.tymer is not built with duration=self.tymeout")

    run.floor("C12.R1", 10)

    # R2 idle test guards closeConnection
    for cname in ("Server", "BareServer"):
        f = ix.method(ix.cls(H, cname), "serviceConnects")
        hits = []
        for node in walk_local(f.node):
            if isinstance(node, ast.If):
                names = {dotted(x) for x in ast.walk(node.test) if isinstance(x, ast.Attribute)}
                if any(d and d.endswith(".tymer.expired") for d in names):
                    hits.append(node)
        ok = False
        what = "no idle test on <ix>.tymer.expired found in %s" % f.qualname
        for node in hits:
            names = {dotted(x) for x in ast.walk(node.test) if isinstance(x, ast.Attribute)}
            gt = any(isinstance(c, ast.Compare) and dotted(c.left) and dotted(c.left).endswith(".tymeout")
                     and isinstance(c.ops[0], ast.Gt) and getattr(c.comparators[0], "value", None) in (0, 0.0)
                     for c in ast.walk(node.test))
            conj = isinstance(node.test, ast.BoolOp) and isinstance(node.test.op, ast.And)
            closes = any(isinstance(c, ast.Call) and is_self_call(c, "closeConnection") for st in node.body for c in ast.walk(st))
            parts = node.test.values if conj else []
            extra = [unparse(v) for v in parts if not ((isinstance(v, ast.Compare) and ".tymeout" in unparse(v)) or (dotted(v) or "").endswith(".tymer.expired"))]
            ok = gt and conj and closes and not extra
            if extra:
                what_extra = extra
            what = "" if ok else "idle test is `%s` with body closing=%s; expected exactly `<ix>.tymeout > 0 and <ix>.tymer.expired` guarding closeConnection%s" % (
                unparse(node.test), closes, (" (extra condition %s keeps an idle connection open)" % extra) if extra else "")
            run.ob("C12.R2", "%s:idle-test-guards-close" % f.fq, ok, run.site(f, node), what)
        if not hits:
            run.ob("C12.R2", "%s:idle-test-guards-close" % f.fq, False, run.site(f), what)
    run.floor("C12.R2", 2)

    # R3 refresh on traffic
    for cname in ("Remoter", "RemoterTls"):
        cls = ix.cls(S, cname)
        for meth, kernel in (("receive", "recv"), ("send", "send")):
            f = ix.method(cls, meth)
            var = None
            for node in walk_local(f.node):
                if isinstance(node, ast.Assign) and isinstance(node.value, ast.Call) and method_call(node.value) == ("self.cs", kernel) \
                        and isinstance(node.targets[0], ast.Name):
                    var = node.targets[0].id
            ok = False
            why = ""
            for node in walk_local(f.node):
                if isinstance(node, ast.Call) and is_self_call(node, "refresh") and var and tcp._guarded_by_truth(node, var):
                    # every guard between the data test and the refresh may only be `self.refreshable`
                    gs = []
                    p = parent(node)
                    while p is not None and p is not f.node:
                        if isinstance(p, ast.If) and dotted(p.test) != var:
                            gs.append(unparse(p.test))
                        p = parent(p)
                    if all(g == "self.refreshable" for g in gs):
                        ok = True
                    else:
                        why = " (refresh is additionally guarded by %s: traffic that does not satisfy it does not count as activity)" % [g for g in gs if g != "self.refreshable"]
            run.ob("C12.R3", "%s:%s.%s:refreshes-on-traffic" % (S, cname, meth), ok, run.site(f),
                   "" if ok else "%s.%s moves data without refreshing the idle tymer: a busy connection is timed out as idle%s" % (cname, meth, why))
    rf = ix.method(ix.cls(S, "Remoter"), "refresh")
    # the idle deadline after a refresh is NOW + tymeout.  Tymer.start() without a start argument begins the period at the current
    # tyme; Tymer.restart() begins it at the previous stop (lossless chaining, C08), which for an idle timeout moves the deadline one
    # whole tymeout further for every refresh (k receives in one cycle -> deadline k*tymeout ahead).
    from .. import timers
    tfacts = timers.timer_facts(run, ix.cls("hio.base.tyming", "Tymer"))
    start_is_now = tfacts["start.start=given-or-now"][0]
    restart_chains = tfacts["restart.start=old-stop"][0]
    calls = [c for c in walk_local(rf.node) if isinstance(c, ast.Call) and (method_call(c) or ("", ""))[0] == "self.tymer"
             and method_call(c)[1] in ("start", "restart")]

    def unwound_only(c):
        """the call is reachable only when the tymer has no tymth (nothing to read the current tyme from)"""
        p, cur = parent(c), c
        while p is not None and p is not rf.node:
            if isinstance(p, ast.If):
                t, neg = p.test, False
                while isinstance(t, ast.UnaryOp) and isinstance(t.op, ast.Not):
                    t, neg = t.operand, not neg
                if (dotted(t) or "").endswith(".tymth"):
                    in_body = any(in_subtree(c, b) for b in p.body)
                    if in_body == neg:      # else-branch of `if x.tymth`, or body of `if not x.tymth`
                        return True
            cur, p = p, parent(p)
        return False

    ok, why = False, "Remoter.refresh does not re-arm self.tymer from the current tyme"
    for c in calls:
        m = method_call(c)[1]
        given_start = next((k.value for k in c.keywords if k.arg == "start"), c.args[1] if len(c.args) > 1 else None)
        if m == "start" and given_start is None and start_is_now and not unwound_only(c):
            ok = True
    for c in calls:
        m = method_call(c)[1]
        given_start = next((k.value for k in c.keywords if k.arg == "start"), c.args[1] if len(c.args) > 1 else None)
        if unwound_only(c):
            continue
        if m == "restart" and restart_chains:
            ok, why = False, ("Remoter.refresh re-arms the idle tymer with `%s`: Tymer.restart begins the next period at the previous stop, so each "
                              "refresh moves the idle deadline one whole tymeout beyond the previous deadline instead of to now + tymeout; after k "
                              "receives/sends the connection may stay idle for k tymeouts before it is closed" % unparse(c))
            break
        if m == "start" and given_start is not None:
            ok, why = False, "Remoter.refresh re-arms the idle tymer with `%s`, which does not start the period at the current tyme" % unparse(c)
            break
    run.ob("C12.R3", "%s:Remoter.refresh:deadline-is-now-plus-tymeout" % S, ok, run.site(rf, calls[0]) if calls else run.site(rf), "" if ok else why)
    run.floor("C12.R3", 5)

    # R4 who zeroes tymeout
    n4 = 0
    for fq, f in sorted(ix.functions.items()):
        if not f.module.name.startswith(("hio.core.tcp", "hio.core.http")) or fq.endswith("@setter") or f.name == "__init__":
            continue
        for node in walk_local(f.node):
            if isinstance(node, ast.Assign):
                for t in node.targets:
                    if isinstance(t, ast.Attribute) and t.attr == "tymeout" and dotted(t) != "self.tymeout":
                        guarded = False
                        p = parent(node)
                        while p is not None and p is not f.node:
                            if isinstance(p, ast.If) and dotted(p.test) == "self.persisted" and any(in_subtree(node, b) for b in p.body):
                                guarded = True
                            p = parent(p)
                        n4 += 1
                        run.ob("C12.R4", "%s:writes-tymeout:%s" % (f.fq, norm(node)), guarded, run.site(f, node),
                               "" if guarded else "`%s` disables the idle tymeout outside the `if self.persisted` guard" % norm(node))
    run.floor("C12.R4", 1)
    if run.tier == "thorough":
        from .. import sweeps
        run.extra["swallowed_keywords_package_wide"] = sweeps.swallowed_keyword_sweep(run)


MUTANTS = [
    Mutant("reintroduce-timeout-keyword", S, "Server.serviceAxes", "tymeout=self.tymeout)", "timeout=self.tymeout)", {"C12.R1"}, canary=True),
    Mutant("reintroduce-tls-timeout-keyword", S, "ServerTls.serviceAxes", "tymeout=self.tymeout,", "timeout=self.tymeout,", {"C12.R1"}),
    Mutant("remoter-tymer-default-duration", S, "Remoter.__init__", "tyming.Tymer(tymth=self.tymth, duration=self.tymeout)", "tyming.Tymer(tymth=self.tymth, duration=self.Tymeout)", {"C12.R1"}),
    Mutant("remoter-receive-no-refresh", S, "Remoter.receive", "            if self.refreshable:\n                self.refresh()\n", "", {"C12.R3"}, canary=True),
    Mutant("https-servant-default-tymeout", H, "Server.__init__", "                                    wl=wl,\n                                    tymeout=tymeout,", "                                    wl=wl,\n                                    tymeout=self.Tymeout,", {"C12.R1"}),
    Mutant("reintroduce-refresh-chains-from-old-deadline", S, "Remoter.refresh", "            self.tymer.start()\n", "            self.tymer.restart()\n", {"C12.R3"}, canary=True),
    Mutant("reintroduce-tls-send-no-refresh", S, "RemoterTls.send", "            if self.refreshable:\n                self.refresh()\n", "", {"C12.R3"}),
    Mutant("idle-test-without-expired", H, "Server.serviceConnects", "if ix.tymeout > 0.0 and ix.tymer.expired:", "if ix.tymeout > 0.0 or ix.tymer.expired:", {"C12.R2"}, canary=True),
    Mutant("bare-idle-test-dropped", H, "BareServer.serviceConnects", "            if ix.tymeout > 0.0 and ix.tymer.expired:\n                self.closeConnection(ca)", "            pass", {"C12.R2"}),
    Mutant("tymeout-zero-unguarded", H, "Requestant.checkPersisted", "        if self.persisted:  # override timeout so server never timesout\n            self.remoter.tymeout =  0.0", "        self.remoter.tymeout = 0.0", {"C12.R4"}, canary=True),
    Mutant("silent-positional-tymeout", S, "Server.serviceAxes", "            remoter = Remoter(tymth=self.tymth,\n                              ha=cs.getsockname(),\n                              ca=ca,\n                              cs=cs,", "            remoter = Remoter(cs.getsockname(), ca, cs, tymth=self.tymth,", silent=True),
]
