"""C05 - run termination and done flags are exact (DESIGN 2.C05)."""
import ast

from ..core import Mutant
from .. import sched
from ..astutil import unparse, is_self_call, parent, keytext
from ..index import dotted, walk_local
from ..linear import canon_compare, linform, show, same

EXPLANATION = ("C05: in Doist.do/ado done=True only under the deeds-empty test and done=False before enter; per cycle "
               "order recur -> empty test -> limit test (self.limit and tymer.expired) with the Tymer built on the "
               "scheduler's tymen() after enter; Tymer.expired is tyme - stop >= 0 with stop = start + duration; every "
               "store to a doer's .done is False at enter or guarded-derived from StopIteration.value / close().")
ASSUMPTIONS = ["numeric limit arithmetic is not decided", "generator.close() return semantics depend on the interpreter (3.13+)"]
M = sched.MOD
TM = "hio.base.tyming"

EXPECT_DONE = {
    "enter": {"const:False", "from:StopIteration.value"},
    "recur": {"from:StopIteration.value"},
    "exit": {"from:<close-result>"},
}


def runloop_obs(run, rule, f, facts=None):
    facts = facts or sched.runloop_facts(run, f)
    for name, want in sched.EXPECT_RUN.items():
        val, site = facts[name]
        ok = val == want
        run.ob(rule, "%s:%s" % (f.fq, name), ok, site, "" if ok else "%s is %s, expected %s" % (name, val, want))
    return facts


def tymer_obs(run, rule):
    ix = run.ix
    tymer = ix.cls(TM, "Tymer")
    exp = ix.method(tymer, "expired")
    rets = [n for n in walk_local(exp.node) if isinstance(n, ast.Return)]
    cc = canon_compare(rets[0].value) if len(rets) == 1 else None
    ok = cc is not None and same(cc[0], {"self._stop": -1, "self.tyme": 1}) and cc[1] == "GtE" or \
        (cc is not None and same(cc[0], {"self._stop": 1, "self.tyme": -1}) and cc[1] == "LtE")
    run.ob(rule, "%s:Tymer.expired:tyme>=stop" % TM, ok, run.site(exp),
           "" if ok else "Tymer.expired is `%s` (canonical %s %s 0), expected tyme - stop >= 0" %
           (unparse(rets[0].value) if rets else "?", show(cc[0]) if cc else "?", cc[1] if cc else "?"))
    start = ix.method(tymer, "start")
    ok = False
    found = None
    for n in walk_local(start.node):
        if isinstance(n, ast.Assign) and dotted(n.targets[0]) == "self._stop":
            found = n
            lf = linform(n.value)
            ok = same(lf, {"self._start": 1, "duration": 1})
    run.ob(rule, "%s:Tymer.start:stop=start+duration" % TM, ok, run.site(start, found),
           "" if ok else "Tymer.start sets _stop to `%s`, expected _start + duration" % (unparse(found.value) if found else None))


def done_obs(run, rule, cls):
    ix = run.ix
    for meth, want in EXPECT_DONE.items():
        f = ix.method(cls, meth)
        close_name = sched.close_result_name(f)
        got = set()
        for klass, site, text in sched.done_store_facts(run, f):
            k = klass
            if close_name and klass == "from:" + close_name:
                k = "from:<close-result>"
            got.add(k)
            ok = k in want
            run.ob(rule, "%s:done-store:%s" % (f.fq, keytext(f, text)), ok, site,
                   "" if ok else "store to a doer's done flag in %s is `%s` (%s); allowed here: %s" % (meth, text, k, sorted(want)))
        miss = want - got
        run.ob(rule, "%s:done-stores-present" % f.fq, not miss, run.site(f),
               "" if not miss else "%s no longer assigns the doer's done flag from %s" % (meth, sorted(miss)))


def selfdone_obs(run, rule, f):
    """Doer.do / DoDoer.do assign self.done only from recur."""
    n_ok = 0
    for n in walk_local(f.node):
        if isinstance(n, ast.Assign) and any(dotted(t) == "self.done" for t in n.targets):
            v = n.value
            if isinstance(v, ast.YieldFrom):
                v = v.value
            ok = isinstance(v, ast.Call) and is_self_call(v, "recur") is not None
            run.ob(rule, "%s:self.done-from-recur:%s" % (f.fq, keytext(f, n)), ok, run.site(f, n),
                   "" if ok else "self.done assigned from `%s`, not from recur's return" % unparse(n.value))
            n_ok += 1
    return n_ok


def check(run):
    ix = run.ix
    doist, dodoer, doer = ix.cls(M, "Doist"), ix.cls(M, "DoDoer"), ix.cls(M, "Doer")
    for name in ("do", "ado"):
        runloop_obs(run, "C05.R1" , ix.method(doist, name))
    tymer_obs(run, "C05.R2")
    for cls in (doist, dodoer):
        done_obs(run, "C05.R3", cls)
    for cls in (doer, dodoer):
        selfdone_obs(run, "C05.R3", ix.method(cls, "do"))
    # DoDoer.recur returns emptiness of the deeds
    f = ix.method(dodoer, "recur")
    rets = [n for n in walk_local(f.node) if isinstance(n, ast.Return)]
    ok = len(rets) == 1 and sched._is_empty_test(rets[0].value) in (True,) or (
        len(rets) == 1 and isinstance(rets[0].value, ast.UnaryOp) and dotted(rets[0].value.operand) in ("deeds", "self.deeds"))
    run.ob("C05.R3", "%s:returns-deeds-empty" % f.fq, ok, run.site(f),
           "" if ok else "DoDoer.recur must return True exactly when no deeds remain")
    run.floor("C05.R1", 10)
    run.floor("C05.R2", 2)
    run.floor("C05.R3", 24)


MUTANTS = [
    Mutant("do-done-before-empty-test", M, "Doist.do", "                    if not self.deeds:  # no deeds\n                        self.done = True\n",
           "                    self.done = True\n                    if not self.deeds:  # no deeds\n", {"C05.R1"}, canary=True),
    Mutant("do-limit-before-empty", M, "Doist.do",
           "                    if not self.deeds:  # no deeds\n                        self.done = True\n                        break  # break out of forever loop\n\n                    if self.limit and tymer.expired:  # reached limit before all deeds done\n                        break  # break out of forever loop\n",
           "                    if self.limit and tymer.expired:  # reached limit before all deeds done\n                        break  # break out of forever loop\n\n                    if not self.deeds:  # no deeds\n                        self.done = True\n                        break  # break out of forever loop\n", {"C05.R1"}, canary=True),
    Mutant("do-limit-without-limit", M, "Doist.do", "if self.limit and tymer.expired:", "if tymer.expired:", {"C05.R1"}),
    Mutant("do-tymer-before-enter", M, "Doist.do", "            self.enter(temp=temp)  # runs enter context on each doer\n\n            tymer = tyming.Tymer(tymth=self.tymen(), duration=self.limit)\n",
           "            tymer = tyming.Tymer(tymth=self.tymen(), duration=self.limit)\n            self.enter(temp=temp)  # runs enter context on each doer\n", {"C05.R1"}),
    Mutant("do-done-false-missing", M, "Doist.do", "        self.done = False\n", "", {"C05.R1"}),
    Mutant("tymer-expired-gt", TM, "Tymer.expired", "self.tyme >= self._stop", "self.tyme > self._stop", {"C05.R2"}, canary=True),
    Mutant("tymer-stop-no-duration", TM, "Tymer.start", "self._stop = self._start + duration", "self._stop = self._start", {"C05.R2"}),
    Mutant("recur-done-true-on-stop", M, "Doist.recur", "                        doer.done = ex.value if ex.value is not None else doer.done\n",
           "                        doer.done = True\n", {"C05.R3"}, canary=True),
    Mutant("enter-done-none", M, "DoDoer.enter", "                    doer.done = False  # False at enter. False signals incomplete", "                    doer.done = None", {"C05.R3"}),
    Mutant("exit-done-true", M, "Doist.exit", "doer.done = done if done is not None else doer.done", "doer.done = True", {"C05.R3"}),
    Mutant("doer-do-done-true", M, "Doer.do", "self.done = self.recur(tyme=tyme)", "self.recur(tyme=tyme); self.done = True", {"C05.R3"}),
    Mutant("dodoer-recur-returns-false", M, "DoDoer.recur", "return (not deeds)", "return False", {"C05.R3"}),
    Mutant("silent-len-zero", M, "Doist.do", "if not self.deeds:  # no deeds", "if len(self.deeds) == 0:", silent=True),
    Mutant("silent-expired-flipped", TM, "Tymer.expired", "self.tyme >= self._stop", "self._stop <= self.tyme", silent=True),
]
