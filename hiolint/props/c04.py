"""C04 - nesting doers inside a tock-0 DoDoer is observationally transparent (DESIGN 2.C04)."""
import ast

from ..core import Mutant
from .. import sched
from ..astutil import is_self_call
from ..index import dotted, walk_local

EXPLANATION = ("C04: fact-level sibling agreement: every scheduling fact extracted from Doist.{enter,recur,exit,extend,"
               "remove} (deque ends, marker, due test, send value, retyme dependence per branch, conservation, close "
               "loop, enter safety, rotation hazard, done-store provenance, extend/remove membership facts) has the "
               "same value on DoDoer under the correspondence table self.tyme<->tyme parameter, self.tymen()<->"
               "self.tymth, tick()<->return not deeds; DoDoer.do feeds recur's result into its loop test.")
ASSUMPTIONS = ["agreement of the extracted facts is a necessary condition of trace equality, not trace equality itself"]
M = sched.MOD


def check(run):
    ix = run.ix
    doist, dodoer = ix.cls(M, "Doist"), ix.cls(M, "DoDoer")
    a = sched.scheduler_fact_bundle(run, doist)
    b = sched.scheduler_fact_bundle(run, dodoer)
    for name in sorted(set(a) | set(b)):
        va, sa = a.get(name, ("<missing>", ""))
        vb, sb = b.get(name, ("<missing>", ""))
        ok = va == vb
        run.ob("C04.R1", "%s:Doist~DoDoer:%s" % (M, name), ok, sb or sa,
               "" if ok else "siblings disagree on %s: Doist has %s, DoDoer has %s" % (name, va, vb))
        run.rows += 1
    run.floor("C04.R1", 30)
    # R2: DoDoer.do completes in the same recur call in which its last child finished
    do = ix.method(dodoer, "do")
    loop = [n for n in walk_local(do.node) if isinstance(n, ast.While)]
    ok = False
    site = run.site(do)
    if loop:
        w = loop[0]
        site = run.site(do, w)
        test_names = {dotted(n) for n in ast.walk(w.test) if isinstance(n, (ast.Attribute, ast.Name))}
        feeds = any(isinstance(n, ast.Assign) and dotted(n.targets[0]) == "self.done" and isinstance(n.value, ast.Call)
                    and is_self_call(n.value, "recur") for n in ast.walk(w))
        # the completion test is the loop test, or a `break` guard inside a `while True` loop
        brk = {dotted(x) for n in ast.walk(w) if isinstance(n, ast.If) and any(isinstance(b, ast.Break) for b in n.body)
               for x in ast.walk(n.test) if isinstance(x, (ast.Attribute, ast.Name))}
        ok = ("self.done" in test_names or "self.done" in brk) and feeds
    run.ob("C04.R2", "%s:DoDoer.do:loop-test-fed-by-recur" % M, ok, site,
           "" if ok else "DoDoer.do's loop test is not fed by self.done = self.recur(...): completion is delayed or lost")
    # recur passes the tyme it was sent
    sent = {n.targets[0].id for n in walk_local(do.node) if isinstance(n, ast.Assign) and isinstance(n.targets[0], ast.Name) and isinstance(n.value, ast.Yield)}
    ok = bool(sent) and any(isinstance(n, ast.Call) and is_self_call(n, "recur")
                            and any(k.arg == "tyme" and dotted(k.value) in sent | {"self.tyme"} for k in n.keywords)
                            for n in walk_local(do.node))
    run.ob("C04.R2", "%s:DoDoer.do:passes-sent-tyme" % M, ok, site,
           "" if ok else "DoDoer.do does not pass the tyme it was sent to recur")
    # DoDoer.recur does not tick and returns emptiness
    run.floor("C04.R2", 2)


MUTANTS = [
    Mutant("reintroduce-dodoer-asap-from-own-tock", M, "DoDoer.recur", "                        retyme = None  # rerun at next recur whenever that is", "                        retyme = tyme + self.tock", {"C04.R1"}, canary=True),
    Mutant("dodoer-asap-marker-not-resolved", M, "DoDoer.recur", "                if retyme is None:  # rerun asap so base of cumulative retyme is now\n                    retyme = tyme\n", "", {"C04.R1"}),
    Mutant("dodoer-due-lt", M, "DoDoer.recur", "if retyme is None or retyme <= tyme:", "if retyme is None or retyme < tyme:", {"C04.R1"}, canary=True),
    Mutant("dodoer-exit-popleft", M, "DoDoer.exit", "deeds.pop()", "deeds.popleft()", {"C04.R1"}),
    Mutant("dodoer-extend-no-filter", M, "DoDoer.extend", "        doers = [doer for doer in doers if doer not in self.doers] # ensure unique\n", "", {"C04.R1"}),
    Mutant("dodoer-foreign-tymth", M, "DoDoer.enter", "dog = doer(tymth=self.tymth,", "dog = doer(tymth=None,", {"C04.R1"}, canary=True),
    Mutant("dodoer-done-dropped", M, "DoDoer.do", "self.done = self.recur(tyme=tyme)", "self.recur(tyme=tyme)", {"C04.R2"}, canary=True),
    Mutant("silent-recur-own-tyme", M, "DoDoer.do", "self.done = self.recur(tyme=tyme)", "self.done = self.recur(tyme=self.tyme)", silent=True),
    Mutant("dodoer-recur-zero-tyme", M, "DoDoer.do", "self.done = self.recur(tyme=tyme)", "self.done = self.recur(tyme=0.0)", {"C04.R2"}),
    Mutant("doist-only-retyme-drift", M, "Doist.recur", "retyme += tock  # cumulative", "retyme = self.tyme + tock  # cumulative", {"C04.R1"}),
    Mutant("silent-both-renamed", M, "DoDoer.recur", "dog", "gen", silent=True, count=0),
]
