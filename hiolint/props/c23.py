"""C23 - durable queues and sets behave as FIFO models and survive reopen (DESIGN 2.C23)."""
import ast

from ..core import Mutant, norm
from ..names import unbound_names, definite_unbound_locals
from ..astutil import method_call, unparse, is_self_call, parent, in_subtree
from ..index import dotted, walk_local

EXPLANATION = ("C23: no unbound name / definite use-before-definition in any Durq or Dusq method; every mutator pairs its "
               "cache operation with the durable operation of the frozen pairing table on the same value and raises when "
               "the durable result reports failure; pull takes from the FIFO end; the durable wrappers go to the matching "
               "sub-database call under `if self.durable`; Hold.inject dispatches Durq -> subery.drqs (DomIoSuber) and "
               "Dusq -> subery.dsqs (DomIoSetSuber) followed by sync(); sync replaces the cache from getIter or pins.")
ASSUMPTIONS = ["model equivalence over operation histories and crash points is not decided"]
DQ, DS, HO, DU = "hio.base.hier.durqing", "hio.base.hier.dusqing", "hio.base.hier.holding", "hio.base.during"

# mutator -> (cache ops on the in-memory container, durable wrapper, failure test on the durable result)
PAIRS = {
    "Durq": {"extend": ({"extend"}, "put"), "push": ({"append"}, "add"), "pull": ({"popleft"}, "pop"), "clear": ({"clear"}, "rem")},
    "Dusq": {"update": ({"update"}, "put"), "push": ({"add"}, "add"), "pull": ({"remove"}, "pop"), "clear": ({"clear"}, "rem"),
             "remove": ({"remove"}, "rem")},
}
WRAPPERS = {"put": "put", "add": "add", "pop": "pop", "rem": "rem", "cnt": "cnt"}


def check(run):
    ix = run.ix
    # R1 names
    n1 = 0
    for mod, cname in ((DQ, "Durq"), (DS, "Dusq")):
        cls = ix.cls(mod, cname)
        for name, f in sorted(cls.methods.items()):
            bad = [(n, node, "bound nowhere") for n, node in unbound_names(ix, f)] + \
                  [(n, node, "read before any assignment on every path") for n, node in definite_unbound_locals(run, f)]
            n1 += 1
            if not bad:
                run.ob("C23.R1", "%s:names-bound" % f.fq, True, run.site(f))
            for n, node, why in bad[:1]:
                run.ob("C23.R1", "%s:unbound:%s" % (f.fq, n), False, run.site(f, node),
                       "name `%s` is %s: %s.%s() raises NameError/UnboundLocalError whenever it runs" % (n, why, cname, name))
    run.floor("C23.R1", 30)
    # R2 pairing
    for mod, cname in ((DQ, "Durq"), (DS, "Dusq")):
        cls = ix.cls(mod, cname)
        cont = "self._deq" if cname == "Durq" else "self._oset"
        for meth, (cops, dur) in sorted(PAIRS[cname].items()):
            f = ix.method(cls, meth)
            got_c = {method_call(n)[1] for n in walk_local(f.node) if isinstance(n, ast.Call) and method_call(n) and method_call(n)[0] == cont
                     and method_call(n)[1] in ("append", "appendleft", "extend", "extendleft", "pop", "popleft", "clear", "add", "update", "remove", "discard")}
            dcalls = [n for n in walk_local(f.node) if isinstance(n, ast.Call) and is_self_call(n) in ("put", "add", "pop", "rem", "pin")]
            got_d = {is_self_call(n) for n in dcalls}
            ok = got_c == cops and got_d == {dur}
            run.ob("C23.R2", "%s:pairs-cache-with-durable" % f.fq, ok, run.site(f),
                   "" if ok else "%s.%s performs cache operation(s) %s and durable operation(s) %s; the pairing table requires %s with %s: "
                   "cache and durable copy diverge" % (cname, meth, sorted(got_c), sorted(got_d), sorted(cops), dur))
            # same value handed to both sides
            cargs = {unparse(a) for n in walk_local(f.node) if isinstance(n, ast.Call) and method_call(n) and method_call(n)[0] == cont
                     and method_call(n)[1] in cops for a in n.args}
            dargs = {unparse(a) for n in dcalls for a in n.args}
            if dur in ("put", "add") or (meth == "remove"):
                ok2 = bool(dargs) and dargs <= cargs | {"vals", "val", "value"} and (cargs & dargs or meth in ("update",))
                if meth == "update":
                    ok2 = dargs == {"vals"} and cargs == {"vals"}
                run.ob("C23.R2", "%s:same-value-both-sides" % f.fq, ok2, run.site(f),
                       "" if ok2 else "cache gets %s but the durable side gets %s" % (sorted(cargs), sorted(dargs)))
            # failure raises
            raised = 0
            for n in dcalls:
                p = parent(n)
                while p is not None and not isinstance(p, ast.If):
                    p = parent(p)
                    if isinstance(p, (ast.FunctionDef,)):
                        p = None
                        break
                if isinstance(p, ast.If) and any(isinstance(x, ast.Raise) for s in p.body for x in ast.walk(s)) and in_subtree(n, p.test):
                    raised += 1
                elif isinstance(p, ast.If) and in_subtree(n, p.test) is False:
                    pass
            # `result = self.add(val)` then `if ... result == False: raise`
            for n in walk_local(f.node):
                if isinstance(n, ast.Assign) and isinstance(n.value, ast.Call) and is_self_call(n.value) == dur and isinstance(n.targets[0], ast.Name):
                    var = n.targets[0].id
                    if any(isinstance(i, ast.If) and var in {x.id for x in ast.walk(i.test) if isinstance(x, ast.Name)}
                           and any(isinstance(x, ast.Raise) for s in i.body for x in ast.walk(s)) for i in walk_local(f.node)):
                        raised += 1
            ok3 = raised >= len(dcalls) and bool(dcalls)
            run.ob("C23.R2", "%s:durable-failure-raises" % f.fq, ok3, run.site(f),
                   "" if ok3 else "%d of %d durable calls in %s.%s are not checked (a failed durable write must raise, else cache and store diverge silently)" %
                   (len(dcalls) - raised, len(dcalls), cname, meth))
        # FIFO end of pull
        pull = ix.method(cls, "pull")
        if cname == "Durq":
            ok = any(isinstance(n, ast.Call) and method_call(n) == ("self._deq", "popleft") for n in walk_local(pull.node))
        else:
            ok = any(isinstance(n, ast.Subscript) and dotted(n.value) == "self._oset" and getattr(n.slice, "value", None) == 0 for n in walk_local(pull.node))
        run.ob("C23.R2", "%s:takes-oldest" % pull.fq, ok, run.site(pull), "" if ok else "pull() does not take the oldest value (FIFO)")
        # wrappers
        for w, target in sorted(WRAPPERS.items()):
            f = ix.method(cls, w)
            calls = [n for n in walk_local(f.node) if isinstance(n, ast.Call) and method_call(n) and method_call(n)[0] == "self._sdb"]
            guard = all(any(isinstance(p, ast.If) and dotted(p.test) == "self.durable" for p in _anc(c)) for c in calls)
            keyed = all(any(dotted(k.value) == "self._key" for k in c.keywords) or any(dotted(a) == "self._key" for a in c.args) for c in calls)
            ok = len(calls) == 1 and method_call(calls[0])[1] == target and guard and keyed
            run.ob("C23.R2", "%s:wrapper" % f.fq, ok, run.site(f),
                   "" if ok else "%s.%s must call self._sdb.%s at self._key under `if self.durable` (found %s)" % (cname, w, target, [unparse(c) for c in calls]))
        # R4 sync
        sync = ix.method(cls, "sync")
        txt = unparse(sync.node)
        fill = "extend" if cname == "Durq" else "update"
        ok = ("%s.clear()" % cont) in txt and ("%s.%s(self._sdb.getIter(self._key))" % (cont, fill)) in txt and "self.pin()" in txt
        clear_first = txt.find("%s.clear()" % cont) < txt.find("%s.%s(" % (cont, fill))
        run.ob("C23.R4", "%s:replaces-cache-or-pins" % sync.fq, ok and clear_first, run.site(sync),
               "" if ok and clear_first else "sync() must clear the cache and refill it from self._sdb.getIter(self._key) when the store is not empty, else pin the cache")
    run.floor("C23.R2", 35)
    run.floor("C23.R4", 2)
    # R3 inject dispatch
    inj = ix.func(HO, "Hold.inject")
    want = {"Durq": "drqs", "Dusq": "dsqs", "CanDom": "cans"}
    arms = {}
    for n in walk_local(inj.node):
        if isinstance(n, ast.If) and isinstance(n.test, ast.Call) and dotted(n.test.func) == "isinstance" and len(n.test.args) == 2:
            k = dotted(n.test.args[1])
            sdb = [unparse(s.value) for s in n.body if isinstance(s, ast.Assign) and dotted(s.targets[0]) == "val._sdb"]
            syncs = any(isinstance(s, ast.Expr) and isinstance(s.value, ast.Call) and (method_call(s.value) or (0, ""))[1] in ("sync", "_sync") for s in n.body)
            keyset = any(isinstance(s, ast.Assign) and dotted(s.targets[0]) == "val._key" and dotted(s.value) == "key" for s in n.body)
            arms[k] = (sdb[0] if sdb else None, syncs, keyset, n)
    for k, attr in sorted(want.items()):
        a = arms.get(k)
        ok = a is not None and a[0] is not None and ("self.subery.%s " % attr) in (a[0] + " ") and a[1] and a[2]
        run.ob("C23.R3", "%s:dispatch:%s" % (inj.fq, k), ok, run.site(inj, a[3]) if a else run.site(inj),
               "" if ok else "Hold.inject must give a %s the sub-database subery.%s, set its key and sync it (found %s)" % (k, attr, a[:3] if a else None))
    sub = ix.func(DU, "Subery.reopen")
    types = {}
    for n in walk_local(sub.node):
        if isinstance(n, ast.Assign) and dotted(n.targets[0]) and dotted(n.targets[0]).startswith("self.") and isinstance(n.value, ast.Call):
            types[dotted(n.targets[0]).split(".")[1]] = dotted(n.value.func)
    for attr, klass in (("drqs", "DomIoSuber"), ("dsqs", "DomIoSetSuber"), ("cans", "DomSuber")):
        ok = types.get(attr) == klass
        run.ob("C23.R3", "%s:subdb-class:%s" % (sub.fq, attr), ok, run.site(sub), "" if ok else "Subery.%s is a %s, expected %s" % (attr, types.get(attr), klass))
    run.floor("C23.R3", 6)
    # R6 family separation: the duplicate-preserving (list) writers never go through the de-duplicating (set) writers
    duror = ix.cls(DU, "Duror")
    LISTW, SETW = ("addIoVal", "putIoVals", "pinIoVals"), ("addIoSetVal", "putIoSetVals", "pinIoSetVals")
    setfq = {ix.method(duror, m).fq: m for m in SETW}
    edges = {}
    for name, f in duror.methods.items():
        out = edges.setdefault(f.fq, set())
        for n in walk_local(f.node):
            mc = method_call(n) if isinstance(n, ast.Call) else None
            if mc and mc[0] == "self" and mc[1] in duror.methods:
                out.add(duror.methods[mc[1]].fq)
    for caller, callee, line in ix.inlined_sites:
        edges.setdefault(caller, set()).add(callee)
    for m in LISTW:
        f = ix.method(duror, m)
        seen, todo = set(), [f.fq]
        while todo:
            x = todo.pop()
            if x not in seen:
                seen.add(x)
                todo.extend(edges.get(x, ()))
        hit = sorted(setfq[x] for x in seen if x in setfq)
        run.ob("C23.R6", "%s:reaches-no-set-writer" % f.fq, not hit, run.site(f),
               "" if not hit else "the duplicate-preserving writer %s goes through the de-duplicating %s: repeated values are dropped from the durable queue" % (m, hit))
        params = {a.arg for a in f.node.args.args + f.node.args.kwonlyargs} & {"val", "vals"}
        dedup = [n for n in walk_local(f.node) if isinstance(n, ast.Call) and dotted(n.func) in ("oset", "set", "frozenset", "dict.fromkeys")
                 and any(isinstance(x, ast.Name) and x.id in params for a in n.args for x in ast.walk(a))]
        run.ob("C23.R6", "%s:values-not-made-a-set" % f.fq, not dedup, run.site(f, dedup[0]) if dedup else run.site(f),
               "" if not dedup else "%s turns its values into a set (%s): duplicates are dropped" % (m, unparse(dedup[0])))
    for cname2, table in (("IoSuber", dict(zip(("add", "put", "pin"), LISTW))), ("IoSetSuber", dict(zip(("add", "put", "pin"), SETW)))):
        c2 = ix.cls(DU, cname2)
        for w, target in sorted(table.items()):
            f = ix.method(c2, w)
            got = sorted({method_call(n)[1] for n in walk_local(f.node) if isinstance(n, ast.Call) and method_call(n) and method_call(n)[0] == "self.db"})
            ok = got == [target]
            run.ob("C23.R6", "%s:db-writer" % f.fq, ok, run.site(f), "" if ok else "%s.%s must write through db.%s only (found %s)" % (cname2, w, target, got))
    run.floor("C23.R6", 12)
    # R5 the durable writers keep insertion order: next ordinal = last stored ordinal + 1
    from .c24 import ordinal_obs
    ordinal_obs(run, "C23.R5")


def _anc(n):
    p = parent(n)
    while p is not None:
        yield p
        p = parent(p)


MUTANTS = [
    Mutant("push-without-add", DQ, "Durq.push", "            result = self.add(val)\n            if result == False:  # durable but not added", "            result = None\n            if result == False:  # durable but not added", {"C23.R2"}, canary=True),
    Mutant("pull-right-end", DQ, "Durq.pull", "val = self._deq.popleft()", "val = self._deq.pop()", {"C23.R2"}, canary=True),
    Mutant("inject-swapped", HO, "Hold.inject", "val._sdb = self.subery.drqs if self.subery else None", "val._sdb = self.subery.dsqs if self.subery else None", {"C23.R3"}, canary=True),
    Mutant("clear-without-rem", DS, "Dusq.clear", "        if self.rem() == False:\n            raise HierError(f\"Mismatch between cache and durable at \"\n                            f\"key={self._key}\")\n", "", {"C23.R2"}),
    Mutant("reintroduce-unbound-val", DS, "Dusq.remove", "if not isinstance(value, (RegDom, IceRegDom)):", "if not isinstance(val, (RegDom, IceRegDom)):", {"C23.R1"}, canary=True),
    Mutant("remove-wrong-durable-value", DS, "Dusq.remove", "if self.rem(value) == False:", "if self.rem() == False:", {"C23.R2"}),
    Mutant("pin-list-through-set-writer", DU, "Duror.pinIoVals", "        result = False\n        with self.env.begin(db=sdb, write=True, buffers=True) as txn:\n            for i, val in enumerate(vals):  # starts at zero\n                iokey = self.suffix(key, i, sep=sep)  # ion is at add on amount\n                result = txn.put(iokey, val, dupdata=False, overwrite=True)\n            return result", "        return self.putIoSetVals(sdb=sdb, key=key, vals=vals, sep=sep)", {"C23.R6"}),
    Mutant("iosuber-put-through-set", DU, "IoSuber.put", "self.db.putIoVals(", "self.db.putIoSetVals(", {"C23.R6"}),
    Mutant("sync-without-clear", DQ, "Durq.sync", "                self._deq.clear()\n", "", {"C23.R4"}),
    Mutant("add-not-durable-guarded", DS, "Dusq.add", "        if self.durable:\n            self._stale = False\n            return self._sdb.add(keys=self._key, val=val)\n        return None", "        self._stale = False\n        return self._sdb.add(keys=self._key, val=val)", {"C23.R2"}),
    Mutant("update-put-not-checked", DS, "Dusq.update", "            if self.put(vals) is False:  # durable unique update but put failed\n                raise HierError(f\"Mismatch between cache and durable at \"\n                                f\"key={self._key}\")\n", "            self.put(vals)\n", {"C23.R2"}),
    Mutant("set-ordinal-by-count", DU, "Duror.putIoSetVals", "ion = cion + 1  # ion to add at is increment of cion", "ion += 1", {"C23.R5"}),
    Mutant("silent-early-return-push", DQ, "Durq.push", "        if val is not None:\n", "        if not (val is None):\n", silent=True),
]
