"""C07 - real-time pacing never runs early and does not drift (DESIGN 2.C07)."""
from ..core import Mutant
from .. import sched, timers

EXPLANATION = ("C07: in Doist.do and Doist.ado (real branch) every path between two recur() calls passes the wait loop "
               "whose exit test is timer.expired, sleeping max(0, remaining), then timer.restart() (lossless: new start "
               "= old stop); the pacing timer's duration is (re)defined from self.tock inside the run; MonoTimer.latest "
               "compensates a backward clock jump on _start, _stop and _last together.")
ASSUMPTIONS = ["actual sleeping behaviour and forward clock jumps are not decided"]
M = sched.MOD
H = "hio.help.timing"


def check(run):
    ix = run.ix
    doist = ix.cls(M, "Doist")
    for name in ("do", "ado"):
        f = ix.method(doist, name)
        facts = sched.pacing_facts(run, f)
        for fname, (ok, site, what) in sorted(facts.items()):
            rule = "C07.R2" if fname in ("pace.duration-from-current-tock", "pace.timer-started-before-loop") else "C07.R1"
            run.ob(rule, "%s:%s" % (f.fq, fname), ok, site, "" if ok else what)
    for mod, cname in (("hio.help.timing", "MonoTimer"), ("hio.help.timing", "AsyncTimer")):
        tf = timers.timer_facts(run, ix.cls(mod, cname))
        for fname in ("restart.start=old-stop", "expired", "remaining", "start.stop=start+duration"):
            ok, site, txt = tf[fname]
            run.ob("C07.R1", "%s:%s:%s" % (mod, cname, fname), ok, site, "" if ok else "%s.%s is `%s`" % (cname, fname, txt))
    for name, ok, site, what, tr in timers.retro_facts(run):
        run.ob("C07.R3", "%s:MonoTimer.%s" % (H, name), ok, site, what, tr)
    run.floor("C07.R1", 14)
    run.floor("C07.R2", 4)
    run.floor("C07.R3", 3)


MUTANTS = [
    Mutant("do-restart-to-start", M, "Doist.do", "self.timer.restart()  #  no time lost", "self.timer.start()", {"C07.R1"}, canary=True),
    Mutant("do-wait-loop-dropped", M, "Doist.do", "                        while not self.timer.expired:\n                            time.sleep(max(0.0, self.timer.remaining))\n", "", {"C07.R1"}, canary=True),
    Mutant("ado-wait-if", M, "Doist.ado", "while not atimer.expired:", "if not atimer.expired:", {"C07.R1"}),
    Mutant("do-sleep-unclamped", M, "Doist.do", "time.sleep(max(0.0, self.timer.remaining))", "time.sleep(self.timer.remaining)", {"C07.R1"}),
    Mutant("mono-restart-from-now", H, "Timer.restart", "start=self._stop", "start=None", {"C07.R1"}),
    Mutant("mono-latest-no-stop-shift", H, "MonoTimer.latest", "                self._stop += delta\n", "", {"C07.R3"}, canary=True),
    Mutant("ado-duration-constant", M, "Doist.ado", "timing.AsyncTimer(duration=self.tock)", "timing.AsyncTimer(duration=self.Tock)", {"C07.R2"}),
    Mutant("reintroduce-do-stale-duration", M, "Doist.do", "self.timer.start(duration=self.tock)", "self.timer.start()", {"C07.R2"}, canary=True),
    Mutant("silent-sleep-via-local", M, "Doist.do", "                            time.sleep(max(0.0, self.timer.remaining))\n",
           "                            wait = max(0.0, self.timer.remaining)\n                            time.sleep(wait)\n", silent=True),
]
