"""C01 - every doer runs a well-formed lifecycle on every exit path (DESIGN 2.C01)."""
from ..core import Mutant
from .. import sched

EXPLANATION = ("C01: typestate over abstract interpretation of Doer.do / DoDoer.do (enter, recur*, exactly one of "
               "clean/cease/abort, exit once and last, on every outcome incl. exception edges out of every call and "
               "GeneratorExit out of every yield), exit bracketing of Doist.do/ado, close loop of exit(), and "
               "deed conservation in the recur/remove rotation loops.")
ASSUMPTIONS = ["calls may raise Exception; yields may raise GeneratorExit or Exception; KeyboardInterrupt/SystemExit "
               "are modelled only in Doist.do/ado", "user overrides of lifecycle methods are not analysed",
               "a doer whose cease()/exit() raises during a forced close stops the close loop (observation, not decided)"]
M = sched.MOD


def emit(run, rule, f, facts):
    for fa in facts:
        run.ob(rule, "%s:%s" % (f.fq, fa.name), fa.ok, fa.site, fa.what, fa.trail)


def check(run):
    ix = run.ix
    doer, dodoer, doist = ix.cls(M, "Doer"), ix.cls(M, "DoDoer"), ix.cls(M, "Doist")
    # R1 lifecycle typestate
    for cls in (doer, dodoer):
        f = ix.method(cls, "do")
        emit(run, "C01.R1", f, sched.lifecycle_facts(run, f))
    run.floor("C01.R1", 8)
    # R2 run brackets
    for name in ("do", "ado"):
        f = ix.method(doist, name)
        emit(run, "C01.R2", f, sched.bracket_facts(run, f))
    run.floor("C01.R2", 6)
    # R3 close loops
    for cls in (doist, dodoer):
        f = ix.method(cls, "exit")
        emit(run, "C01.R3", f, sched.close_loop_facts(run, f))
    run.floor("C01.R3", 6)
    # R4 conservation
    for cls in (doist, dodoer):
        f = ix.method(cls, "recur")
        emit(run, "C01.R4", f, sched.conservation_facts(run, f, "recur"))
        f = ix.method(cls, "remove")
        emit(run, "C01.R4", f, sched.conservation_facts(run, f, "remove"))
    run.floor("C01.R4", 8)


MUTANTS = [
    Mutant("doer-do-drop-finally", M, "Doer.do", "        finally:  # exit context, exit, unforced if normal exit of try, forced otherwise\n            self.exit()\n",
           "", {"C01.R1"}, canary=True),
    Mutant("doer-do-drop-reraise", M, "Doer.do", "            self.abort(ex=ex)\n            raise\n", "            self.abort(ex=ex)\n", {"C01.R1"}, canary=True),
    Mutant("doer-do-clean-in-try", M, "Doer.do", "                    self.done = self.recur(tyme=tyme)  # False means recur again\n",
           "                    self.done = self.recur(tyme=tyme)  # False means recur again\n            self.clean()\n", {"C01.R1"}),
    Mutant("dodoer-do-handlers-swapped", M, "DoDoer.do", "        except GeneratorExit:  # cease context, forced exit due to generator.close()\n            self.cease()\n",
           "        except BaseException:\n            self.cease()\n", {"C01.R1"}),
    Mutant("dodoer-do-exit-in-else", M, "DoDoer.do", "        finally:  # exit context, exit, unforced if normal exit of try, forced otherwise\n            self.exit()  # equiv of doist.do finally clause\n",
           "", {"C01.R1"}),
    Mutant("doist-do-finally-to-except", M, "Doist.do", "        finally: # finally clause always runs regardless of exception or not.\n            self.exit()",
           "        except Exception:\n            self.exit()\n            raise", {"C01.R2"}, canary=True),
    Mutant("doist-ado-double-exit", M, "Doist.ado", "                except KeyboardInterrupt:  # Forced shutdown due to SIGINT, use CNTL-C to shutdown from shell\n                    break",
           "                except KeyboardInterrupt:  # Forced shutdown due to SIGINT, use CNTL-C to shutdown from shell\n                    self.exit()\n                    break", {"C01.R2"}),
    Mutant("doist-exit-break-at-marker", M, "Doist.exit", "                continue  # skip marker", "                break", {"C01.R3"}, canary=True),
    Mutant("dodoer-exit-skip-close", M, "DoDoer.exit", "            if not dog:  # marker deed\n", "            if not dog or not retime:\n", {"C01.R3"}),
    Mutant("doist-exit-if-not-while", M, "Doist.exit", "        while(deeds):", "        while len(deeds) > 1:", {"C01.R3"}),
    Mutant("doist-recur-reappend-finished", M, "Doist.recur", "                        doer.__func__.done = ex.value if ex.value is not None else doer.done\n",
           "                        doer.__func__.done = ex.value if ex.value is not None else doer.done\n                    deeds.append((dog, retyme, doer))\n", {"C01.R4"}, canary=True),
    Mutant("dodoer-recur-drop-notdue", M, "DoDoer.recur", "            else:  # not retyme yet\n                deeds.append((dog, retyme, doer))  # reappend for next run through\n", "", {"C01.R4"}),
    Mutant("doist-remove-drop-keep", M, "Doist.remove", "            else:  # keep deed do not remove and close\n                deeds.append((dog, retyme, doer))  # reappend\n", "", {"C01.R4"}),
    Mutant("dodoer-remove-double", M, "DoDoer.remove", "                rdeeds.append((dog, retyme, doer))  # add to removal deque\n",
           "                rdeeds.append((dog, retyme, doer))  # add to removal deque\n                deeds.append((dog, retyme, doer))\n", {"C01.R4"}),
    # behaviour-preserving rewrites
    Mutant("silent-rename-dog", M, "Doist.exit", "dog", "gen", silent=True, count=0),
    Mutant("silent-while-len", M, "Doist.exit", "        while(deeds):", "        while len(deeds) > 0:", silent=True),
    Mutant("silent-recur-while-len", M, "Doist.recur", "        while deeds: #", "        while len(deeds): #", silent=True),
]
