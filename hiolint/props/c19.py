"""C19 - client requests are sent one at a time and answered in FIFO order (DESIGN 2.C19)."""
import ast

from ..core import Mutant, norm
from ..httpx import HC
from ..absint import Domain, Interp, NORMAL, RETURN, RAISE, is_raise
from ..astutil import method_call, unparse, parent, in_subtree, is_self_call, oriented, guard_atoms
from ..index import dotted, walk_local

EXPLANATION = ("C19: self.requests.popleft() occurs only in serviceRequests under `not self.waited`; transmit sets waited "
               "True on every path before connector.tx; waited is cleared only in the block that appends to self.responses "
               "a dict carrying 'request'; queue ends agree (append/popleft); in redirect the https->http refusal dominates "
               "closing the connector and building a non-TLS connector, the redirect path neither appends a response nor "
               "clears waited, and the redirect history is attached on the final append.")
ASSUMPTIONS = ["server behaviours are not decided", "the refusal itself is a raise that leaves Client.service (reported under C16)"]


def guards(node, f):
    out = []
    p = parent(node)
    while p is not None and p is not f.node:
        if isinstance(p, ast.If):
            pol = any(in_subtree(node, b) for b in p.body)
            out += guard_atoms(p.test, pol)
        p = parent(p)
    return out


class WaitedDomain(Domain):
    """transmit: waited set True before connector.tx on every path. state = waited known True"""

    def __init__(self):
        self.tx = []

    def initial(self):
        return False

    def on_store(self, target, value, state, stmt):
        if dotted(target) == "self.waited":
            return getattr(value, "value", None) is True
        return state

    def on_event(self, node, state):
        if isinstance(node, ast.Call) and method_call(node) == ("self.connector", "tx"):
            self.tx.append((node, state))
        yield state, NORMAL


def check(run):
    ix = run.ix
    cls = ix.cls(HC, "Client")
    # R1 popleft only in serviceRequests under not waited
    n1 = 0
    for name, f in sorted(cls.methods.items()):
        for n in walk_local(f.node):
            if isinstance(n, ast.Call) and method_call(n) in (("self.requests", "popleft"), ("self.requests", "pop")):
                g = guards(n, f)
                ok = name == "serviceRequests" and "not self.waited" in g and method_call(n)[1] == "popleft"
                run.ob("C19.R1", "%s:takes-request:%s" % (f.fq, norm(n)), ok, run.site(f, n),
                       "" if ok else "a request is taken from the queue in %s under guards %s; only serviceRequests may popleft, and only when not waited" % (name, g))
                n1 += 1
    sr = ix.method(cls, "serviceRequests")
    tx = [n for n in walk_local(sr.node) if isinstance(n, ast.Call) and is_self_call(n, "transmit")]
    ok = bool(tx) and all("not self.waited" in guards(n, sr) for n in tx)
    run.ob("C19.R1", "%s:transmits-only-when-not-waited" % sr.fq, ok, run.site(sr), "" if ok else "serviceRequests transmits while a response is still awaited")
    run.floor("C19.R1", 2)
    # R2 transmit sets waited before tx
    tr = ix.method(cls, "transmit")
    dom = WaitedDomain()
    res = Interp(dom, run.lat).run(tr.node)
    run.paths += len(res)
    ok = bool(dom.tx) and all(st for n, st in dom.tx)
    run.ob("C19.R2", "%s:waited-before-tx" % tr.fq, ok, run.site(tr), "" if ok else "transmit() hands the request to connector.tx on a path where waited has not been set True")
    run.floor("C19.R2", 1)
    # R6 response parser re-armed after the request is (re)built: it reads the method of the request just built
    class Armed(Domain):
        def __init__(self):
            self.reinit = []

        def initial(self):
            return False

        def on_event(self, node, state):
            if isinstance(node, ast.Call):
                mc = method_call(node)
                if mc and mc[0] == "self.requester" and mc[1] in ("build", "rebuild"):
                    yield True, NORMAL
                    return
                if mc == ("self.respondent", "reinit"):
                    self.reinit.append((node, state))
            yield state, NORMAL
    dom2 = Armed()
    Interp(dom2, run.lat).run(tr.node)
    ok = bool(dom2.reinit) and all(st for n, st in dom2.reinit)
    run.ob("C19.R6", "%s:respondent-rearmed-after-build" % tr.fq, ok, run.site(tr, dom2.reinit[0][0]) if dom2.reinit else run.site(tr),
           "" if ok else "transmit() re-initialises the response parser before the request is (re)built: it is armed with the previous request's "
           "method (a HEAD after a GET is parsed as GET and waits for a body)")
    run.floor("C19.R6", 1)
    # R7 defaults taken from the shared requester are copied into the queued request
    rinit = ix.func(HC, "Requester.__init__")
    mutable = set()
    for n in walk_local(rinit.node):
        if isinstance(n, ast.Assign) and dotted(n.targets[0]) and dotted(n.targets[0]).startswith("self."):
            t = unparse(n.value)
            if "dict()" in t or "Hict(" in t or "list(" in t or "[]" in t or "{}" in t:
                mutable.add(dotted(n.targets[0]).split(".")[1])
    reqf = ix.method(cls, "request")
    n7 = 0
    queued = {dotted(n.args[0]) for n in walk_local(reqf.node) if isinstance(n, ast.Call) and method_call(n) == ("self.requests", "append") and n.args}
    for n in walk_local(reqf.node):
        if isinstance(n, ast.Assign) and isinstance(n.targets[0], ast.Subscript) and dotted(n.targets[0].value) in queued:
            for sub in ast.walk(n.value):
                if isinstance(sub, ast.Attribute) and dotted(sub) and dotted(sub).startswith("self.requester.") and sub.attr in mutable:
                    par = parent(sub)
                    copied = isinstance(par, ast.Attribute) and par.attr == "copy" or (isinstance(par, ast.Call) and (dotted(par.func) or "").split(".")[-1] in ("copy", "deepcopy", "dict", "Hict", "list"))
                    run.ob("C19.R7", "%s:default-%s-copied" % (reqf.fq, sub.attr), copied, run.site(reqf, n),
                           "" if copied else "request() stores the requester's own mutable %s in the queued request: requests queued without explicit %s share "
                           "(and, through Requester.build, accumulate into) one object" % (sub.attr, sub.attr))
                    n7 += 1
    run.floor("C19.R7", 2)
    # R3 waited cleared only with the response append
    n3 = 0
    for name, f in sorted(cls.methods.items()):
        if name == "__init__":
            continue
        for n in walk_local(f.node):
            if isinstance(n, ast.Assign) and dotted(n.targets[0]) == "self.waited" and getattr(n.value, "value", None) is False:
                blk = None
                p = parent(n)
                for field in ("body", "orelse"):
                    b = getattr(p, field, None)
                    if isinstance(b, list) and n in b:
                        blk = b
                app = [s for s in (blk or []) if isinstance(s, ast.Expr) and isinstance(s.value, ast.Call) and method_call(s.value) == ("self.responses", "append")]
                ok = bool(app)
                carries = False
                if app:
                    var = dotted(app[0].value.args[0])
                    for m in walk_local(f.node):
                        if isinstance(m, ast.Assign) and dotted(m.targets[0]) == var:
                            carries = carries or "'request'" in unparse(m.value)
                run.ob("C19.R3", "%s:waited-cleared-with-response" % f.fq, ok and carries, run.site(f, n),
                       "" if ok and carries else "waited is cleared in %s without appending a response dict carrying its 'request' in the same block" % name)
                n3 += 1
    run.floor("C19.R3", 1)
    # R4 queue ends
    req = ix.method(cls, "request")
    ok = any(isinstance(n, ast.Call) and method_call(n) == ("self.requests", "append") for n in walk_local(req.node)) \
        and not any(isinstance(n, ast.Call) and method_call(n) == ("self.requests", "appendleft") for n in walk_local(req.node))
    run.ob("C19.R4", "%s:requests-appended-right" % req.fq, ok, run.site(req), "" if ok else "request() must append at the right end (served with popleft)")
    resp = ix.method(cls, "respond")
    ok = any(isinstance(n, ast.Call) and method_call(n) == ("self.responses", "popleft") for n in walk_local(resp.node))
    sresp = ix.method(cls, "serviceResponse")
    ok2 = any(isinstance(n, ast.Call) and method_call(n) == ("self.responses", "append") for n in walk_local(sresp.node))
    run.ob("C19.R4", "%s:responses-fifo" % cls.fq, ok and ok2, run.site(resp), "" if ok and ok2 else "responses must be appended right and taken with popleft")
    run.floor("C19.R4", 2)
    # R5 redirect
    rd = ix.method(cls, "redirect")
    refusal = [n for n in walk_local(rd.node) if isinstance(n, ast.If) and "'https'" in unparse(n.test) and n.body and isinstance(n.body[-1], ast.Raise)]
    ok = False
    newscheme = set()
    if refusal:
        r = refusal[0]
        # the new scheme is whichever local is bound from `<urlsplit result>.scheme`
        newscheme = {n.targets[0].id for n in walk_local(rd.node) if isinstance(n, ast.Assign) and isinstance(n.targets[0], ast.Name)
                     and isinstance(n.value, ast.Attribute) and n.value.attr == "scheme" and not (dotted(n.value) or "").startswith("self.")}
        cmps = [o for o in (oriented(c, lambda e: dotted(e) is not None) for c in ast.walk(r.test) if isinstance(c, ast.Compare))
                if o and getattr(o[2], "value", None) == "https"]
        ok = isinstance(r.test, ast.BoolOp) and isinstance(r.test.op, ast.And) \
            and any(dotted(l) == "self.requester.scheme" and op == "Eq" for l, op, rr in cmps) \
            and any(dotted(l) in newscheme and op == "NotEq" for l, op, rr in cmps)
        closes = [n for n in walk_local(rd.node) if isinstance(n, ast.Call) and method_call(n) == ("self.connector", "close")]
        newc = [n for n in walk_local(rd.node) if isinstance(n, ast.Call) and (dotted(n.func) or "").endswith("tcp.Client")]
        ok = ok and all(c.lineno > r.end_lineno for c in closes + newc) and bool(closes) and bool(newc)
    run.ob("C19.R5", "%s:https-to-http-refused-before-switch" % rd.fq, ok, run.site(rd, refusal[0]) if refusal else run.site(rd),
           "" if ok else "the https->http refusal must dominate closing the connector and constructing a plain tcp.Client")
    # the refusal reads self.requester.scheme, so the requester must follow the connector: when redirect() switches the connector it
    # re-initialises the requester with the new location's hostname, port AND scheme (otherwise http -> https -> http is not refused)
    reinits = [n for n in walk_local(rd.node) if isinstance(n, ast.Call) and method_call(n) == ("self.requester", "reinit")]
    swaps = [n for n in walk_local(rd.node) if isinstance(n, ast.Assign) and dotted(n.targets[0]) == "self.connector"]
    ok = False
    why = "redirect() replaces the connector without re-initialising the requester"
    if reinits and swaps and refusal:
        kws = {k.arg: dotted(k.value) for k in reinits[0].keywords}
        missing = [k for k in ("hostname", "port", "scheme") if k not in kws]
        ok = not missing and kws.get("scheme") in newscheme and reinits[0].lineno > swaps[0].lineno
        why = "after switching the connector redirect() calls `%s`: %s is not updated, so the https->http refusal (which reads " \
              "self.requester.scheme) and the Host header of the redirected request use the previous location's value" % (
                  unparse(reinits[0]).replace("\n", " "), ", ".join(missing) or "scheme (not the new location's scheme)")
    run.ob("C19.R5", "%s:requester-follows-connector" % rd.fq, ok, run.site(rd, reinits[0]) if reinits else run.site(rd), "" if ok else why)
    bad = [n for n in walk_local(rd.node) if (isinstance(n, ast.Call) and method_call(n) == ("self.responses", "append")) or
           (isinstance(n, ast.Assign) and dotted(n.targets[0]) == "self.waited" and getattr(n.value, "value", 1) is False)]
    run.ob("C19.R5", "%s:redirect-path-keeps-waiting" % rd.fq, not bad, run.site(rd), "" if not bad else "redirect() appends a response or clears waited: the redirected request would be answered twice")
    hist = [n for n in walk_local(sresp.node) if isinstance(n, ast.Assign) and isinstance(n.targets[0], ast.Subscript)
            and getattr(n.targets[0].slice, "value", None) == "redirects"]
    ok = bool(hist) and "self.redirects" in unparse(hist[0].value)
    run.ob("C19.R5", "%s:redirect-history-attached" % sresp.fq, ok, run.site(sresp), "" if ok else "the redirect history is not attached to the final response")
    # one owner of the redirect history: serviceResponse() appends to / rebinds self.redirects, so redirect() must read the Location to follow
    # from self.redirects itself - an alias held by another object (the respondent got the list at construction) goes stale on rebinding
    reads = [n for n in walk_local(rd.node) if isinstance(n, ast.Subscript) and isinstance(n.ctx, ast.Load) and (dotted(n.value) or "").endswith("redirects")]
    rebinds = [n for g in (sresp, rd, ix.method(cls, "request")) for n in walk_local(g.node) if isinstance(n, ast.Assign) and dotted(n.targets[0]) == "self.redirects"]
    ok = bool(reads) and all(dotted(n.value) == "self.redirects" for n in reads)
    run.ob("C19.R5", "%s:follows-own-redirect-history" % rd.fq, ok or not rebinds, run.site(rd, reads[0]) if reads else run.site(rd),
           "" if ok or not rebinds else "redirect() takes the Location to follow from `%s` while the client rebinds self.redirects (%d site(s)): after the first "
           "completed redirect sequence the two lists differ and a later redirected request follows the previous sequence's last Location" %
           (unparse(reads[0].value) if reads else None, len(rebinds)))
    call = [n for n in walk_local(sresp.node) if isinstance(n, ast.Call) and is_self_call(n, "redirect")]
    ok = bool(call) and any("redirectant" in g for g in guards(call[0], sresp))
    run.ob("C19.R5", "%s:redirect-only-when-redirectant" % sresp.fq, ok, run.site(sresp), "" if ok else "redirect() must be called only for redirect responses")
    run.floor("C19.R5", 6)


MUTANTS = [
    Mutant("redirect-requester-keeps-old-scheme", HC, "Client.redirect", "                                      port=port,\n                                      scheme=scheme)", "                                      port=port)", {"C19.R5"}),
    Mutant("servicerequests-no-waited-test", HC, "Client.serviceRequests", "        if not self.waited:\n            if self.requests:", "        if True:\n            if self.requests:", {"C19.R1"}, canary=True),
    Mutant("transmit-no-waited", HC, "Client.transmit", "        self.waited = True\n", "", {"C19.R2"}, canary=True),
    Mutant("transmit-waited-after-tx", HC, "Client.transmit", "        self.waited = True\n", "        pass\n", {"C19.R2"}),
    Mutant("request-appendleft", HC, "Client.request", "self.requests.append(request)", "self.requests.appendleft(request)", {"C19.R4"}, canary=True),
    Mutant("https-guard-removed", HC, "Client.redirect", "                if self.requester.scheme == 'https' and scheme != 'https':\n                    raise  ValueError(\"Attempt to redirect to non secure \"\n                                      \"host '{0}'\".format(location))\n", "", {"C19.R5"}, canary=True),
    Mutant("waited-false-on-redirect", HC, "Client.redirect", "            self.respondent.redirected = True\n", "            self.respondent.redirected = True\n            self.waited = False\n", {"C19.R5", "C19.R3"}),
    Mutant("waited-cleared-early", HC, "Client.serviceResponse", "                self.respondent.dictify()\n", "                self.respondent.dictify()\n                self.waited = False\n", {"C19.R3"}),
    Mutant("response-without-request", HC, "Client.serviceResponse", "                                      ('request', request),\n", "", {"C19.R3"}),
    Mutant("reinit-before-build", HC, "Client.transmit", "        self.waited = True\n", "        self.waited = True\n        self.respondent.reinit(method=self.requester.method)\n", {"C19.R6"}),
    Mutant("default-qargs-shared", HC, "Client.request", "self.requester.qargs.copy()", "self.requester.qargs", {"C19.R7"}),
    Mutant("silent-early-return", HC, "Client.serviceRequests", "        if not self.waited:\n            if self.requests:", "        if not self.waited:\n            if len(self.requests):", silent=True),
]
