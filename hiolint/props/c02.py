"""C02 - forced exits are nested: reverse enter order, children before parent (DESIGN 2.C02)."""
import ast

from ..core import Mutant
from .. import sched
from ..absint import Interp, RETURN
from ..astutil import is_self_call, kwarg
from ..index import dotted, walk_local

EXPLANATION = ("C02: deque-end agreement between enter (append right) and exit (pop right) for Doist and DoDoer; "
               "DoDoer.do reaches its child-closing exit() on every outcome; exception-safe entering into a fresh "
               "local deque (extend); remove() closes the removed deeds before returning; rotation hazard "
               "(marker left in the deque by a raising recur vs. exit() merely skipping it); close order source: the deque is not in enter "
               "order after a mid-recur extend or while the marker is in it, so exit() and remove() must order the deeds by the "
               "position of their doer in self.doers (kept in enter order) before closing from the right.")
ASSUMPTIONS = ["calls may raise Exception; dog.send/next additionally StopIteration",
               "self.doers is in enter order (insertion order; C06 decides the writers of .doers)"]
M = sched.MOD


def check(run):
    ix = run.ix
    dodoer, doist = ix.cls(M, "DoDoer"), ix.cls(M, "Doist")
    for cls in (doist, dodoer):
        ends = sched.deque_end_facts(run, cls)
        for name, want in (("enter.append-end", ("right",)), ("exit.pop-end", ("right",))):
            val, site = ends[name]
            run.ob("C02.R1", "%s:%s:%s" % (M, cls.name, name), val == want, site,
                   "" if val == want else "deeds are entered with append (right) so exit must pop from the right "
                   "for LIFO order: %s is %s" % (name, val))
        run.rows += 2
    run.floor("C02.R1", 4)

    # R2 children before parent
    do = ix.method(dodoer, "do")
    ex = ix.resolve_method(dodoer, "exit")
    ok = ex is not None and ex.cls is dodoer and bool(sched.deque_loops(ex))
    run.ob("C02.R2", "%s:DoDoer.do:exit-resolves-to-child-closing-loop" % M, ok, run.site(do),
           "" if ok else "self.exit() in DoDoer.do does not resolve to a method closing the children")
    life = sched.lifecycle_facts(run, do)
    for fa in life:
        if "enter" in fa.name.split("|")[0]:
            okx = fa.name.split("|")[0].endswith("exit")
            run.ob("C02.R2", "%s:DoDoer.do:%s" % (M, fa.name), okx, fa.site,
                   "" if okx else "DoDoer.do finishes without calling exit() (children not closed before parent)", fa.trail)
    run.floor("C02.R2", 5)

    # R3 exception-safe entering
    for cls in (doist, dodoer):
        f = ix.method(cls, "enter")
        for fa in sched.enter_safety_facts(run, f):
            run.ob("C02.R3", "%s:%s" % (f.fq, fa.name), fa.ok, fa.site, fa.what, fa.trail)
    run.floor("C02.R3", 4)

    # R4 remove closes before returning
    for cls in (doist, dodoer):
        f = ix.method(cls, "remove")
        # the deque that receives moved deeds
        moved = set()
        loops = sched.deque_loops(f)
        for loop, popstmt, deq, end, names in loops:
            for n in ast.walk(loop):
                if isinstance(n, ast.Call):
                    mc = sched.method_call(n)
                    if mc and mc[1] in ("append", "appendleft") and mc[0] != deq and n.args and isinstance(n.args[0], ast.Tuple):     # order is fixed by R6
                        moved.add(mc[0])
        res = Interp(sched.CountDomain("exit"), run.lat).run(f.node)
        run.paths += len(res)
        counts = sorted({st for (st, oc) in res if oc == RETURN})
        ok = counts == [1]
        run.ob("C02.R4", "%s:exit-once-on-return" % f.fq, ok, run.site(f),
               "" if ok else "remove() returns having called self.exit() %s times: removed doers are not force-closed before it returns" % counts)
        args = set()
        last_exit_after_loop = False
        for n in walk_local(f.node):
            if isinstance(n, ast.Call) and is_self_call(n, "exit"):
                v = kwarg(n, "deeds") or (n.args[0] if n.args else None)
                while isinstance(v, ast.Call) and dotted(v.func) in ("deque", "list", "tuple") and len(v.args) == 1:
                    v = v.args[0]       # a copy of the removed deeds is still the removed deeds
                args.add(dotted(v) if v is not None else None)
        ok = bool(moved) and args == moved
        run.ob("C02.R4", "%s:exit-gets-removed-deeds" % f.fq, ok, run.site(f),
               "" if ok else "self.exit() in remove() is given %s, the removed deeds are in %s" % (sorted(map(str, args)), sorted(moved)))
    run.floor("C02.R4", 4)

    # R5 rotation hazard
    for cls in (doist, dodoer):
        facts, note = sched.rotation_hazard_facts(run, cls)
        for fa in facts:
            run.ob("C02.R5", "%s:%s:%s" % (M, cls.name, fa.name), fa.ok, fa.site, fa.what, fa.trail)
        if note:
            run.note(note)
    run.floor("C02.R5", 2)
    # R6 close order comes from .doers (enter order), not from the deque
    for cls in (doist, dodoer):
        for name, ok, site, what in sched.close_order_facts(run, cls):
            run.ob("C02.R6", "%s:%s:%s" % (M, cls.name, name), ok, site, what)
    run.floor("C02.R6", 4)
    # R7 exit()/recur() work on the deque they are given: only `deeds is None` selects the scheduler's own .deeds, so that
    # remove() with nothing to close (an empty deque) closes nothing
    for cls in (doist, dodoer):
        for name, (forms, site) in sorted(sched.own_selector_facts(run, cls).items()):
            if not forms:
                run.inconclusive_at("C02.R7", site, "%s.%s: the statement that falls back to self.deeds was not found" % (cls.name, name))
                continue
            ok = forms == ("is-none",)
            run.ob("C02.R7", "%s:%s:%s" % (M, cls.name, name), ok, site,
                   "" if ok else "%s.%s falls back to the scheduler's own .deeds on `%s`: an empty deque passed by remove()/enter() "
                   "makes it close or run every doer of the scheduler" % (cls.name, name.split(".")[0], forms))
    run.floor("C02.R7", 4)


MUTANTS = [
    Mutant("dodoer-exit-own-deeds-on-empty", M, "DoDoer.exit", "        if deeds is None:\n            deeds = self.deeds", "        if not deeds:\n            deeds = self.deeds", {"C02.R7"}),
    Mutant("doist-exit-own-deeds-by-or", M, "Doist.exit", "        if deeds is None:\n            deeds = self.deeds\n", "        deeds = deeds or self.deeds\n", {"C02.R7"}),
    Mutant("doist-exit-popleft", M, "Doist.exit", "deeds.pop()", "deeds.popleft()", {"C02.R1"}, canary=True),
    Mutant("dodoer-enter-appendleft", M, "DoDoer.enter", "deeds.append((dog, self.tyme, doer))", "deeds.appendleft((dog, self.tyme, doer))", {"C02.R1"}),
    Mutant("dodoer-do-no-exit", M, "DoDoer.do", "            self.exit()  # equiv of doist.do finally clause", "            pass", {"C02.R2"}, canary=True),
    Mutant("doist-remove-drop-exit", M, "Doist.remove", "        self.exit(deeds=rdeeds)", "        pass", {"C02.R4"}, canary=True),
    Mutant("dodoer-remove-exit-wrong-deque", M, "DoDoer.remove", "        self.exit(deeds=rdeeds)", "        self.exit(deeds=deque())", {"C02.R4"}),
    Mutant("reintroduce-enter-no-unwind", M, "Doist.enter", "                self.exit(deeds=deeds)\n", "                pass\n", {"C02.R3"}, canary=True),
    Mutant("reintroduce-dodoer-enter-no-unwind", M, "DoDoer.enter", "                self.exit(deeds=deeds)\n", "                pass\n", {"C02.R3"}),
    Mutant("silent-exit-no-rotate", M, "Doist.exit", "            deeds.rotate(-(deeds.index(marker) + 1))\n", "            pass\n", silent=True),
    Mutant("reintroduce-exit-deque-order", M, "Doist.exit", "        deeds.clear()\n        deeds.extend(ordered)\n", "", {"C02.R6"}, canary=True),
    Mutant("reintroduce-exit-deque-order-no-rotate", M, "Doist.exit", "            deeds.rotate(-(deeds.index(marker) + 1))\n\n        # deeds extended during a recur sit before deeds not yet run in that recur\n        # so restore enter order which is the order of .doers\n        order = {id(doer): i for i, doer in enumerate(self.doers)}\n        ordered = sorted(deeds, key=lambda deed: order.get(id(deed[2]), -1))\n        deeds.clear()\n        deeds.extend(ordered)\n", "            pass\n", {"C02.R5", "C02.R6"}),
    Mutant("reintroduce-remove-deque-order", M, "DoDoer.remove", "        rdeeds = deque(sorted(rdeeds, key=lambda deed: order[id(deed[2])]))\n", "", {"C02.R6"}),
    Mutant("silent-remove-exit-copy", M, "Doist.remove", "        self.exit(deeds=rdeeds)", "        self.exit(deeds=deque(rdeeds))", silent=True),
    Mutant("silent-dodoer-exit-no-rotate", M, "DoDoer.exit", "            deeds.rotate(-(deeds.index(marker) + 1))\n", "            pass\n", silent=True),
    Mutant("reintroduce-dodoer-exit-deque-order", M, "DoDoer.exit", "        deeds.clear()\n        deeds.extend(ordered)\n", "", {"C02.R6"}),
    Mutant("silent-starred-unpack", M, "Doist.exit", "dog, retime, doer = deeds.pop()", "dog, *rest = deeds.pop(); doer = rest[-1]", silent=True),
]
