"""C16 - no client-sent bytes can make the HTTP server's service loop raise (DESIGN 2.C16)."""
import ast

from ..core import Mutant, norm
from ..escape import Escape, RAISER_TABLE, NOT_IN_TABLE
from .. import httpx
from ..astutil import method_call, unparse, is_self_call
from ..index import dotted, walk_local
from ..loader import AnalysisError
from ..absint import Domain, Interp, NORMAL, RETURN

EXPLANATION = ("C16: interprocedural raise/catch analysis (E7) from http.Server.service, http.BareServer.service and "
               "http.Client.service with taint seeded from the receive buffers: the set of input-dependent exception "
               "kinds that can propagate out of the service entry must be empty; plus: no dict is mutated, through "
               "resolved calls, while a service method iterates over it without a list() copy.")
ASSUMPTIONS = ["the WSGI application is a trust boundary: what self.app(environ, start_response) returns is not treated as peer input",
               "exceptions from operations outside the printed raiser table are not decided",
               "unresolved calls are assumed not to raise (listed in the evidence)",
               "taint is flow-insensitive per function; receiver typing uses the frozen receiver table in hiolint/httpx.py"]
HS, HC, HT = httpx.HS, httpx.HC, httpx.HT


# boundary call sites: one finding per boundary (the call site that hands peer-derived data to code written for caller input)
BOUNDARIES = {
    HC + ":Client.redirect": "Client.serviceResponse calls self.redirect() unguarded and redirect() feeds the response's Location header into "
                             "urlsplit/normalizeHost/Requester.reinit/transmit",
}


def entries(run):
    ix = run.ix
    return [(ix.method(ix.cls(HS, "Server"), "service"), ix.cls(HS, "Server")),
            (ix.method(ix.cls(HS, "BareServer"), "service"), ix.cls(HS, "BareServer")),
            (ix.method(ix.cls(HC, "Client"), "service"), ix.cls(HC, "Client"))]


def analyse(run):
    bad = httpx.verify_receiver_table(run)
    if bad:
        raise AnalysisError("receiver table stale: %s" % bad)
    esc = Escape(run.ix, run.lat, httpx.RECEIVERS, httpx.SEEDS, trusted=httpx.TRUSTED)
    esc.ba_seeds = set(httpx.BA_SEEDS)
    res = esc.analyse(entries(run))
    return esc, res


def mutating_iterations(run):
    """R2: every `for .. in <self container>.items()/values()/keys()` of the service methods: either iterates over a
    list() copy or its body reaches, through resolved calls, no del/store on that dict."""
    ix = run.ix
    out = []
    for cname in ("Server", "BareServer"):
        cls = ix.cls(HS, cname)
        for name, f in sorted(cls.methods.items()):
            if not name.startswith("service"):
                continue
            for loop in [n for n in walk_local(f.node) if isinstance(n, ast.For)]:
                it, copied = loop.iter, False
                while isinstance(it, ast.Call) and dotted(it.func) in ("list", "tuple", "sorted") and it.args:
                    it, copied = it.args[0], True
                if isinstance(it, ast.Call) and isinstance(it.func, ast.Attribute) and it.func.attr in ("items", "values", "keys"):
                    cont = dotted(it.func.value)
                elif isinstance(it, ast.Attribute):
                    cont = dotted(it)
                else:
                    continue
                if not cont or not cont.startswith("self."):
                    continue
                hit = None if copied else _mutates(ix, cls, f, loop, cont, set())
                out.append((f, loop, cont, hit))
    return out


def _mutates(ix, cls, f, root, cont, seen, depth=0):
    """Does executing `root` (a statement subtree in f) delete from / insert into container `cont` (self-relative)?"""
    if depth > 4:
        return None
    for n in ast.walk(root):
        if isinstance(n, ast.Delete):
            for t in n.targets:
                if isinstance(t, ast.Subscript) and dotted(t.value) == cont:
                    return (f, n)
        if isinstance(n, ast.Assign) and depth > 0:
            for t in n.targets:
                if isinstance(t, ast.Subscript) and dotted(t.value) == cont:
                    return (f, n)
        if isinstance(n, ast.Call):
            m = is_self_call(n)
            if m:
                g = ix.resolve_method(cls, m)
                if g is not None and g not in seen:
                    seen.add(g)
                    r = _mutates(ix, cls, g, g.node, cont, seen, depth + 1)
                    if r:
                        return r
            mc = method_call(n)
            # self.servant.removeIx(ca) mutates self.servant.ixes
            if mc and mc[0] and cont.startswith(mc[0] + ".") and mc[0] != "self":
                owner_attr = mc[0].split(".", 1)[1] if "." in mc[0] else None
                sub = cont[len(mc[0]) + 1:]
                for (ocls, attr), classes in httpx.RECEIVERS.items():
                    if attr == owner_attr and ix.classes.get(ocls) in cls.mro:
                        for cfq in classes:
                            oc = ix.classes[cfq]
                            g = ix.resolve_method(oc, mc[1])
                            if g is not None and g not in seen:
                                seen.add(g)
                                r = _mutates(ix, oc, g, g.node, "self." + sub, seen, depth + 1)
                                if r:
                                    return r
    return None


class _ErrDom(Domain):
    """state: what is known about <requestant>.errored on this path: None / True / False"""

    def __init__(self):
        self.hits = []

    def initial(self):
        return "unknown"

    def assume(self, test, truth, state):
        t, neg = test, False
        while isinstance(t, ast.UnaryOp) and isinstance(t.op, ast.Not):
            t, neg = t.operand, not neg
        d = dotted(t)
        if d and d.endswith(".errored"):
            return "errored" if truth != neg else "clean"
        return super().assume(test, truth, state)

    def on_event(self, node, state):
        if isinstance(node, ast.Call):
            mc = method_call(node)
            name = (mc[1] if mc else dotted(node.func)) or ""
            if name in ("respond", "buildEnviron", "dictify"):
                self.hits.append((node, state))
            if name == "parse":
                yield "unknown", NORMAL
                return
        yield state, NORMAL


def errored_guard(run):
    """R3: a request flagged .errored by the parser is never answered (fields may be None): every call of
    buildEnviron()/respond() in the serving loops is reached only with `errored` known False."""
    ix = run.ix
    for cname, meth in (("Server", "serviceReqs"), ("BareServer", "serviceStewards")):
        f = ix.method(ix.cls(HS, cname), meth)
        dom = _ErrDom()
        res = Interp(dom, run.lat).run(f.node)
        run.paths += len(res)
        bad = [(n, st) for n, st in dom.hits if st != "clean"]
        ok = bool(dom.hits) and not bad
        run.ob("C16.R3", "%s:responds-only-to-unerrored-requests" % f.fq, ok, run.site(f, bad[0][0]) if bad else run.site(f),
               "" if ok else ("`%s` is reachable without a preceding `errored` test: a malformed request whose fields are still None "
                              "is answered and the service loop raises" % norm(bad[0][0]) if bad else "no respond/buildEnviron call found"))


def check(run):
    esc, res = analyse(run)
    n_sum = len(esc.visited)
    for (ffq, rfq), raisers in sorted(res.items()):
        ent = ffq
        tainted = [r for r in raisers if r.tainted]
        run.ob("C16.R1", "%s:analysed" % ent, True, "", "")
        grouped = {}
        rest = []
        for r in sorted(tainted, key=lambda r: r.key()):
            b = [x for x in r.via if x in BOUNDARIES] + ([r.func.fq] if r.func.fq in BOUNDARIES else [])
            if b:
                grouped.setdefault(b[0], []).append(r)
            else:
                rest.append(r)
        for b, rs in sorted(grouped.items()):
            run.ob("C16.R1", "%s:escapes-via:%s" % (ent, b), False, rs[0].site(),
                   "%s: %d input-dependent raisers reachable below it escape %s, e.g. %s" %
                   (BOUNDARIES[b], len(rs), ent.split(":")[1], "; ".join(sorted({"%s `%s` (%s)" % (r.kind, r.construct(), r.func.qualname) for r in rs})[:8])))
        for r in rest:
            run.ob("C16.R1", "%s:escapes:%s:%s:%s" % (ent, r.kind, r.func.fq, r.construct()), False, r.site(),
                   "input-dependent %s raised by `%s` in %s is caught nowhere below %s: bytes from the peer make the service "
                   "loop raise (via %s)" % (r.kind, r.construct(), r.func.qualname, ent.split(":")[1], " -> ".join(x.split(":")[1] for x in r.via[:6])))
        other = [r for r in raisers if not r.tainted]
        for r in other[:40]:
            run.note("not input-dependent, escapes %s: %s %s at %s" % (ent.split(":")[1], r.kind, r.construct(), r.site()))
    run.extra["raiser_table"] = RAISER_TABLE
    run.extra["not_in_raiser_table"] = NOT_IN_TABLE
    run.extra["summaries"] = n_sum
    run.extra["calls_resolved"] = esc.calls_resolved
    run.extra["calls_total"] = esc.calls_total
    run.extra["unresolved_calls"] = dict(sorted(esc.unresolved.items(), key=lambda kv: -kv[1])[:60])
    run.extra["tainted_attributes"] = {k: sorted(v) for k, v in esc.tainted_attrs.items()}
    for key in esc.visited:
        run.functions.add(key[0])
        run.modules.add(key[0].split(":")[0])
    run.paths += n_sum
    if n_sum < 60:
        raise AnalysisError("raise/catch analysis visited only %d (function, class) summaries, floor is 60" % n_sum)
    # R2 mutation during iteration
    for f, loop, cont, hit in mutating_iterations(run):
        ok = hit is None
        run.ob("C16.R2", "%s:iterates:%s" % (f.fq, cont), ok, run.site(f, loop),
               "" if ok else "`%s` iterates over %s without a list() copy while its body reaches `%s` in %s: RuntimeError "
               "(dictionary changed size during iteration) as soon as a connection is closed" %
               (norm(loop.iter), cont, norm(hit[1]), hit[0].qualname))
    run.floor("C16.R1", 3)
    run.floor("C16.R2", 5)
    errored_guard(run)
    run.floor("C16.R3", 2)
    head_state_definitely_assigned(run)
    run.floor("C16.R4", 3)
    # R5 the parsers are executable on every dispatch arm: a local that no path has assigned when an arm reads it raises
    # UnboundLocalError, which is neither HTTPException nor ValueError and so escapes parseMessage and the service loop
    from ..names import definite_unbound_locals, unbound_names
    ix = run.ix
    scope = []
    for mod, cname in ((httpx.HS, "Requestant"), (httpx.HC, "Respondent"), ("hio.core.http.httping", "Parsent")):
        scope.extend(f for _, f in sorted(ix.cls(mod, cname).methods.items()))
    scope.extend(f for fq, f in sorted(ix.functions.items()) if f.module.name == "hio.core.http.httping" and f.cls is None)
    for f in scope:
        bad = [(nm, node, "is bound nowhere (NameError)") for nm, node in unbound_names(ix, f)]
        bad += [(nm, node, "is read on an arm that no path reaches with it assigned (UnboundLocalError)") for nm, node in definite_unbound_locals(run, f)]
        for nm, node, why in bad:
            run.ob("C16.R5", "%s:unbound:%s" % (f.fq, nm), False, run.site(f, node),
                   "`%s` %s: a peer whose message takes this arm makes the parser, and with it service(), raise" % (nm, why))
        if not bad:
            run.ob("C16.R5", "%s:names-bound" % f.fq, True, run.site(f))
    run.floor("C16.R5", 25)


def _chain_arms(node):
    """arms of an if/elif chain: [(test, body)], and the final else body (or None)"""
    arms = []
    cur = node
    while True:
        arms.append((cur.test, cur.body))
        if len(cur.orelse) == 1 and isinstance(cur.orelse[0], ast.If):
            cur = cur.orelse[0]
            continue
        return arms, (cur.orelse or None)


def _stores_attr(body):
    out = set()
    for st in body:
        for n in ast.walk(st):
            if isinstance(n, ast.Assign):
                for t in n.targets:
                    d = dotted(t)
                    if d and d.startswith("self.") and d.count(".") == 1:
                        out.add(d)
    return out


def head_state_definitely_assigned(run):
    """R4 (exhaustive dispatch): in the head parsers, when two or more arms of one if/elif chain each assign the same per-message
    attribute, the chain decides that attribute; it must then have an else arm assigning it too, unless the attribute was given a
    value earlier in the same function.  Otherwise a head that matches no arm (HTTP/1.2 with arms for 1.0 and 1.1) is accepted by
    the parser but leaves None - or the previous message's value - behind, and the code that runs after parsing, outside the
    parser's error guard (Server.buildEnviron, Steward.respond, Client.serviceResponse), raises or answers for the wrong message."""
    ix = run.ix
    HS, HC = httpx.HS, httpx.HC
    n = 0
    for mod, cname in ((HS, "Requestant"), (HC, "Respondent")):
        cls = ix.cls(mod, cname)
        for meth in ("parseHead",):     # checkPersisted dispatches on the version that parseHead decides; C18.R5 covers it
            f = ix.method(cls, meth)
            chains = []
            inner = set()
            for node in walk_local(f.node):
                if isinstance(node, ast.If) and id(node) not in inner:
                    cur = node
                    while len(cur.orelse) == 1 and isinstance(cur.orelse[0], ast.If):
                        cur = cur.orelse[0]
                        inner.add(id(cur))
                    chains.append(node)
            for ch in chains:
                arms, final = _chain_arms(ch)
                if len(arms) + (1 if final is not None else 0) < 2:
                    continue
                per_arm = [_stores_attr(b) for t, b in arms]
                decided = set.intersection(*per_arm) if per_arm else set()
                for attr in sorted(decided):
                    branches = len(arms) + (1 if final is not None and attr in _stores_attr(final) else 0)
                    if branches < 2:
                        continue        # a single conditional store is a flag with a default elsewhere, not a dispatch
                    n += 1
                    has_else = final is not None and (attr in _stores_attr(final) or isinstance(final[-1], (ast.Raise, ast.Return)))
                    before = any(isinstance(st, ast.Assign) and attr in {dotted(t) for t in st.targets} and st.lineno < ch.lineno
                                 for st in walk_local(f.node))
                    ok = has_else or before
                    run.ob("C16.R4", "%s:%s-decided-exhaustively" % (f.fq, attr), ok, run.site(f, ch),
                           "" if ok else "%s.%s assigns %s in each of the %d arms of `if %s ... elif ...` but has no else arm and no earlier "
                           "default: a head matching none of the arms is accepted with %s unset (None, or the previous message's value "
                           "on a kept-alive connection) and the code that reads it after parsing raises" %
                           (cname, meth, attr, len(arms), unparse(arms[0][0]), attr))
    return n


MUTANTS = [
    Mutant("persisted-lookup-only-on-one-arm", httpx.HS, "Requestant.checkPersisted", "        connection = self.headers.get(\"connection\")  # check connection header\n", "", {"C16.R5"}),
    Mutant("version-unset-for-other-minor", HS, "Requestant.parseHead", "        else:\n            self.version = (1, 1)", "        elif version.startswith(u\"HTTP/1.1\"):\n            self.version = (1, 1)", {"C16.R4"}),
    Mutant("narrow-parsemessage-handler", HT, "Parsent.parseMessage", "except (HTTPException, ValueError) as ex:  # malformed message bytes", "except BadStatusLine as ex:", {"C16.R1"}, canary=True),
    Mutant("environ-int-unguarded", HS, "Server.buildEnviron", "environ['CONTENT_LENGTH'] = str(requestant.length)", "environ['CONTENT_LENGTH'] = int(requestant.headers['content-length'])", {"C16.R1"}, canary=True),
    Mutant("reintroduce-valueerror-escapes", HT, "Parsent.parseMessage", "except (HTTPException, ValueError) as ex:  # malformed message bytes", "except HTTPException as ex:", {"C16.R1"}),
    Mutant("reintroduce-bytearray-key", HT, "parseChunk", "parms[bytes(name.strip())] = bytes(value.strip()) or None", "parms[name.strip()] = value.strip() or None", {"C16.R1"}),
    Mutant("reintroduce-100-continue", HC, "Respondent.parseHead", "            lineParser.close()  # close generator\n            lineParser = None\n", "            lineParser.close()  # close generator\n", {"C16.R1"}),
    Mutant("reintroduce-bare-iter-nocopy", HS, "BareServer.serviceStewards", "for ca, steward in list(self.stewards.items()):", "for ca, steward in self.stewards.items():", {"C16.R2"}),
    Mutant("reintroduce-bare-respond-errored", HS, "BareServer.serviceStewards", "                    if steward.requestant.errored:  # malformed request so give up\n                        self.closeConnection(ca)\n                        continue\n", "", {"C16.R3"}),
    Mutant("servicereqs-respond-errored", HS, "Server.serviceReqs", "                    if requestant.errored:  # parse may swallow error but set .errored and .error", "                    if False:", {"C16.R3"}, canary=True),
    Mutant("drop-list-copy-servicereqs", HS, "Server.serviceConnects", "for ca, ix in list(self.servant.ixes.items()):", "for ca, ix in self.servant.ixes.items():", {"C16.R2"}, canary=True),
    Mutant("silent-handler-exception", HT, "Parsent.parseMessage", "except (HTTPException, ValueError) as ex:  # malformed message bytes", "except Exception as ex:", silent=True),
]
