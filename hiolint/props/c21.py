"""C21 - memo transmission loses no gram under transport backpressure (DESIGN 2.C21)."""
import ast

from ..core import Mutant, norm
from .. import memo
from ..tcp import classification_sites
from ..astutil import method_call, unparse, is_self_call
from ..index import dotted, walk_local

EXPLANATION = ("C21: gram ownership typestate in Memoer._serviceOnceTxGrams (a gram popped from .txgs is stored in .txbs, "
               "proven empty, or dropped inside the unreachable-peer handler before the function returns); the UDP and UXD "
               "send() return 0 exactly for {EAGAIN, EWOULDBLOCK, ENOBUFS, ENOMEM} and re-raise otherwise, and the memoer's "
               "drop list is disjoint from that set; FIFO ends of .txgs; the service loops keep running while a partial send "
               "is pending in .txbs.")
ASSUMPTIONS = ["transport behaviour itself is not decided"]
MM = memo.MM
WOULDBLOCK = {"errno.EAGAIN", "errno.EWOULDBLOCK", "errno.ENOBUFS", "errno.ENOMEM"}


def check(run):
    ix = run.ix
    f = ix.func(MM, "Memoer._serviceOnceTxGrams")
    facts = memo.ownership_facts(run, f)
    for fact in facts:
        k, ok, site, what, tr = fact
        run.ob("C21.R1", "%s:%s" % (f.fq, k), ok, site, what, tr)
    run.floor("C21.R1", 3)
    # R2 transport tables
    for mod, q in (("hio.core.udp.udping", "Peer.send"), ("hio.core.uxd.uxding", "Peer.send")):
        g = ix.func(mod, q)
        sites = classification_sites(run, g)
        ok = False
        what = "no errno classification in %s" % g.qualname
        if sites:
            arms = sites[0]["arms"]
            got = set(arms[0]["elems"])
            ret0 = any(isinstance(s, ast.Return) and getattr(s.value, "value", None) == 0 for s in arms[0]["body"])
            rer = any(isinstance(n, ast.Raise) and n.exc is None for n in ast.walk(sites[0]["handler"]))
            ok = got == WOULDBLOCK and ret0 and rer
            what = "" if ok else "%s returns 0 for %s (expected exactly %s), returns-0=%s, re-raises-otherwise=%s" % (g.qualname, sorted(got), sorted(WOULDBLOCK), ret0, rer)
            run.rows += len(got)
        run.ob("C21.R2", "%s:wouldblock-table" % g.fq, ok, run.site(g), what)
    sites = classification_sites(run, f)
    drop = set(sites[0]["arms"][0]["elems"]) if sites else set()
    ok = bool(drop) and not (drop & WOULDBLOCK)
    run.ob("C21.R2", "%s:drop-list-disjoint-from-wouldblock" % f.fq, ok, run.site(f),
           "" if ok else "the memoer drops a gram for %s: a would-block errno in the drop list discards grams under backpressure" % sorted(drop & WOULDBLOCK))
    run.floor("C21.R2", 3)
    # R3 FIFO ends
    ends = set()
    for q in ("Memoer.gramit", "Memoer._serviceOneTxMemo"):
        g = ix.func(MM, q)
        for n in walk_local(g.node):
            if isinstance(n, ast.Call):
                mc = method_call(n)
                if mc and mc[0] == "self.txgs":
                    ends.add(mc[1])
    pops = {method_call(n)[1] for n in walk_local(f.node) if isinstance(n, ast.Call) and method_call(n) and method_call(n)[0] == "self.txgs"}
    ok = ends == {"append"} and pops == {"popleft"}
    run.ob("C21.R3", "%s:txgs-fifo" % MM, ok, run.site(f), "" if ok else "txgs is filled with %s and drained with %s; FIFO needs append/popleft" % (sorted(ends), sorted(pops)))
    sentvars = {t.id for n in walk_local(f.node) if isinstance(n, ast.Assign) and isinstance(n.value, ast.Call) and is_self_call(n.value, "send")
                for t in n.targets if isinstance(t, ast.Name)}
    gramvars = {a.id for n in walk_local(f.node) if isinstance(n, ast.Call) and is_self_call(n, "send") for a in n.args[:1] if isinstance(a, ast.Name)}
    ok = any(isinstance(n, ast.Delete) and isinstance(n.targets[0], ast.Subscript) and dotted(n.targets[0].value) in gramvars
             and isinstance(n.targets[0].slice, ast.Slice) and n.targets[0].slice.lower is None and dotted(n.targets[0].slice.upper) in sentvars
             for n in walk_local(f.node))
    run.ob("C21.R3", "%s:removes-exactly-sent-prefix" % f.fq, ok, run.site(f), "" if ok else "the sent prefix gram[:cnt] is not what is removed from the gram")
    run.floor("C21.R3", 2)
    # R4 service loops cover the pending buffer
    for q in ("Memoer.serviceTxGrams", "Memoer.serviceTxGramsOnce"):
        g = ix.func(MM, q)
        tests = [n.test for n in walk_local(g.node) if isinstance(n, (ast.While, ast.If))
                 and any(isinstance(c, ast.Call) and is_self_call(c, "_serviceOnceTxGrams") for c in ast.walk(n))]
        names = {dotted(x) for t in tests for x in ast.walk(t) if isinstance(x, ast.Attribute)}
        ok = bool(tests) and "self.txgs" in names and "self.txbs" in names
        run.ob("C21.R4", "%s:services-while-partial-send-pending" % g.fq, ok, run.site(g),
               "" if ok else "%s runs only while %s: the unsent remainder of the last gram in .txbs is never sent once .txgs is empty" % (g.name, sorted(n for n in names if n)))
    run.floor("C21.R4", 2)


MUTANTS = [
    Mutant("reintroduce-save-only-if-cnt", MM, "Memoer._serviceOnceTxGrams", "        if dst is not None:  # not dropped so keep what remains to send if any", "        if cnt:", {"C21.R1"}, canary=True),
    Mutant("udp-send-len-on-eagain", "hio.core.udp.udping", "Peer.send", "                return 0  # try again later with same data", "                return len(data)", {"C21.R2"}, canary=True),
    Mutant("eagain-in-drop-list", MM, "Memoer._serviceOnceTxGrams", "errno.ETIME)):  # far peer problem", "errno.ETIME, errno.EAGAIN)):  # far peer problem", {"C21.R2"}),
    Mutant("uxd-enobufs-raises", "hio.core.uxd.uxding", "Peer.send", "                               errno.ENOBUFS,\n", "", {"C21.R2"}),
    Mutant("gramit-appendleft", MM, "Memoer.gramit", "self.txgs.append((gram, dst))", "self.txgs.appendleft((gram, dst))", {"C21.R3"}, canary=True),
    Mutant("reintroduce-loop-ignores-txbs", MM, "Memoer.serviceTxGrams", "while self.opened and (self.txgs or self.txbs[1] is not None):", "while self.opened and self.txgs:", {"C21.R4"}, canary=True),
    Mutant("silent-rename-cnt", MM, "Memoer._serviceOnceTxGrams", "                dst = None  # done indicated by setting dst to None\n", "                dst = None\n", silent=True),
]
