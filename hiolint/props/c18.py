"""C18 - WSGI responses are framed and pipelined requests answered in order (DESIGN 2.C18)."""
import ast

from ..core import Mutant, norm
from ..httpx import HS
from ..absint import Interp, RETURN, Domain, NORMAL
from ..deps import DepDomain, fs
from ..linear import linform, same, show
from ..astutil import alpha, method_call, unparse, parent, in_subtree, is_self_call, guard_atoms
from ..index import dotted, walk_local

EXPLANATION = ("C18: init/reset agreement of Responder: every attribute written while producing one response (start, "
               "write, build, service) is definitely assigned by reset() on every path to a value that does not depend on "
               "its previous value, and reset parameters feeding such attributes are supplied at every call site; write() "
               "clamps what it sends to Content-Length minus what was already sent; responders are created/reset only "
               "for ended requests, the next pipelined request is parsed only after the response ended on a persistent "
               "connection, non-persistent connections are closed once the transmit buffer is empty; build() sets chunked "
               "iff chunkable and start() turns chunking off when Content-Length is present.")
ASSUMPTIONS = ["the cross product version x keep-alive x application output is not decided"]
PER_RESPONSE_WRITERS = ("start", "write", "build", "service")
NOT_PER_RESPONSE = {"closed"}       # connection state, not response state


class ResetDomain(DepDomain):
    def __init__(self, params):
        super().__init__()
        self.pnames = params

    def tag(self, test, truth, state):
        # `param is not None` / `param is None`
        if isinstance(test, ast.Compare) and len(test.ops) == 1 and isinstance(test.left, ast.Name) and test.left.id in self.pnames \
                and getattr(test.comparators[0], "value", 0) is None:
            supplied = isinstance(test.ops[0], ast.IsNot) == truth
            return ("supplied", test.left.id, supplied)
        return None


def check(run):
    ix = run.ix
    rcls = ix.cls(HS, "Responder")
    reset = ix.method(rcls, "reset")
    init = ix.method(rcls, "__init__")
    per = {}
    for m in PER_RESPONSE_WRITERS:
        f = ix.method(rcls, m)
        for n in walk_local(f.node):
            if isinstance(n, (ast.Assign, ast.AugAssign)):
                for t in (n.targets if isinstance(n, ast.Assign) else [n.target]):
                    d = dotted(t)
                    if d and d.startswith("self.") and d.count(".") == 1:
                        per.setdefault(d, (f, n))
    per = {k: v for k, v in per.items() if k.split(".")[1] not in NOT_PER_RESPONSE}
    init_attrs = {dotted(t) for n in walk_local(init.node) if isinstance(n, ast.Assign) for t in n.targets if dotted(t)}
    run.ob("C18.R1", "%s:per-response-attributes-found" % rcls.fq, len(per) >= 10, run.site(rcls.methods["start"]),
           "" if len(per) >= 10 else "only %d per-response attributes found" % len(per))
    # call sites of reset and the parameters they supply
    params = [p for p in reset.params()[0][1:]]
    supplied_everywhere = {p: True for p in params}
    ncalls = 0
    for fq, f in ix.functions.items():
        if f.module.name != HS or fq.endswith("@setter"):
            continue
        for n in walk_local(f.node):
            if isinstance(n, ast.Call) and isinstance(n.func, ast.Attribute) and n.func.attr == "reset" \
                    and ((dotted(n.func.value) or "").split(".")[-1].startswith("responder") or any(k.arg in params for k in n.keywords)
                         or (isinstance(n.func.value, ast.Subscript) and dotted(n.func.value.value) == "self.reps")):
                ncalls += 1
                for i, p in enumerate(params):
                    v = n.args[i] if i < len(n.args) else next((k.value for k in n.keywords if k.arg == p), None)
                    if v is None or (isinstance(v, ast.Constant) and v.value is None):
                        supplied_everywhere[p] = False
    run.ob("C18.R1", "%s:reset-call-sites" % reset.fq, ncalls >= 1, run.site(reset), "" if ncalls else "Responder.reset is never called")
    dom = ResetDomain(set(params))
    res = Interp(dom, run.lat).run(reset.node)
    run.paths += len(res)
    for attr in sorted(per):
        bad = None
        for (st, oc), tr in res.items():
            if oc != RETURN:
                continue
            tags = {t[1]: t[2] for t in st[1] if isinstance(t, tuple) and t[0] == "supplied"}
            # paths on which a parameter that every caller supplies is None are not taken
            if any((not sup) and supplied_everywhere.get(p) for p, sup in tags.items()):
                continue
            d = dom.env_get(st, attr)
            if d is None:
                unsup = [p for p, sup in tags.items() if not sup]
                bad = "reset() can return without assigning %s%s" % (attr, (" (when parameter %s is not passed, as at a call site)" % unsup) if unsup else "")
                trail = tr
                break
            if attr in d:
                bad = "reset() computes %s from its previous value" % attr
                trail = tr
                break
        # conditional on the attribute's own old value
        for n in walk_local(reset.node):
            if isinstance(n, ast.If) and attr in {dotted(x) for x in ast.walk(n.test) if isinstance(x, ast.Attribute)} \
                    and any(isinstance(s, ast.Assign) and dotted(s.targets[0]) == attr for s in ast.walk(n)):
                bad = bad or "reset() assigns %s only under a test of its own previous value (`%s`)" % (attr, unparse(n.test))
        wf, wn = per[attr]
        run.ob("C18.R1", "%s:resets:%s" % (reset.fq, attr), bad is None, run.site(reset),
               "" if bad is None else "%s; it is written per response by %s (`%s`): the next response on a kept-alive connection inherits it" % (bad, wf.qualname, norm(wn)))
    run.floor("C18.R1", 12)

    # R2 clamp
    write = ix.method(rcls, "write")
    env = {}
    for n in walk_local(write.node):
        if isinstance(n, ast.Assign) and isinstance(n.targets[0], ast.Name) and n.targets[0].id not in ("msg", "head"):
            env[n.targets[0].id] = n.value
    sym = lambda e: unparse(e)
    clamp = None
    for n in walk_local(write.node):
        if isinstance(n, ast.Assign) and dotted(n.targets[0]) == "msg" and isinstance(n.value, ast.Subscript) \
                and dotted(n.value.value) == "msg" and isinstance(n.value.slice, ast.Slice) and n.value.slice.lower is None:
            clamp = n
    ok = False
    what = "write() never clamps the body to the declared Content-Length"
    if clamp is not None:
        lf = linform(clamp.value.slice.upper, env, sym)
        neg_form = {"self.length": 1, "self.size": -1, "len(msg)": -1}
        pos_form = {"self.length": 1, "self.size": -1}
        guard = parent(clamp)
        under_len = False
        p = clamp
        while p is not None and p is not write.node:
            if isinstance(p, ast.If) and "self.length is not None" in unparse(p.test):
                under_len = True
            p = parent(p)
        cmp_ok = isinstance(guard, ast.If) and any(isinstance(c, ast.Compare) and isinstance(c.ops[0], (ast.Gt, ast.GtE))
                                                    and "self.length" in unparse(c) for c in ast.walk(guard.test))
        if not cmp_ok and isinstance(guard, ast.If):
            # the guard may be phrased through a temporary: `excess = size + len(msg) - length; if excess > 0:`
            for c in ast.walk(guard.test):
                if isinstance(c, ast.Compare) and len(c.ops) == 1 and isinstance(c.ops[0], (ast.Gt, ast.GtE, ast.Lt, ast.LtE)):
                    l_, r_ = linform(c.left, env, sym), linform(c.comparators[0], env, sym)
                    if l_ is not None and r_ is not None:
                        d_ = {k: l_.get(k, 0) - r_.get(k, 0) for k in set(l_) | set(r_)}
                        d_ = {k: v for k, v in d_.items() if v}
                        if isinstance(c.ops[0], (ast.Lt, ast.LtE)):
                            d_ = {k: -v for k, v in d_.items()}
                        if same(d_, {"self.size": 1, "len(msg)": 1, "self.length": -1}):
                            cmp_ok = True
        ok = (same(lf, neg_form) or same(lf, pos_form)) and under_len and cmp_ok
        what = "" if ok else "clamp is msg[:%s] (linear form %s) under `%s`; expected msg[:length - size_before(- len(msg))] when the total exceeds length" % (
            unparse(clamp.value.slice.upper), show(lf), unparse(guard.test) if isinstance(guard, ast.If) else None)
    run.ob("C18.R2", "%s:clamps-to-content-length" % write.fq, ok, run.site(write, clamp) if clamp is not None else run.site(write), what)
    adv = [n for n in walk_local(write.node) if isinstance(n, ast.AugAssign) and dotted(n.target) == "self.size"]
    ok = bool(adv) and unparse(adv[0].value) == "len(msg)" and clamp is not None and adv[0].lineno > clamp.lineno
    run.ob("C18.R2", "%s:size-advances-by-sent" % write.fq, ok, run.site(write), "" if ok else "self.size must advance by len(msg) after the clamp")
    txs = [n for n in walk_local(write.node) if isinstance(n, ast.Call) and method_call(n) == ("self.incomer", "tx") and dotted(n.args[0]) == "msg"]
    ok = bool(txs) and clamp is not None and all(t.lineno > clamp.lineno for t in txs)
    run.ob("C18.R2", "%s:sends-after-clamp" % write.fq, ok, run.site(write), "" if ok else "the body is handed to incomer.tx before it is clamped")
    run.floor("C18.R2", 3)

    # R3 ordering guards
    srv = ix.cls(HS, "Server")
    reqs, reps = ix.method(srv, "serviceReqs"), ix.method(srv, "serviceReps")

    def roles(f):
        """locals named by where their value comes from: elements of self.reqs are `requestant`, of self.reps / Responder() `responder`"""
        ren = {}
        src = {"self.reqs": "requestant", "self.reps": "responder"}
        for n in walk_local(f.node):
            if isinstance(n, ast.For) and isinstance(n.target, ast.Tuple) and len(n.target.elts) == 2 and isinstance(n.target.elts[1], ast.Name):
                for a in ast.walk(n.iter):
                    if isinstance(a, ast.Call) and isinstance(a.func, ast.Attribute) and a.func.attr == "items" and dotted(a.func.value) in src:
                        ren[n.target.elts[1].id] = src[dotted(a.func.value)]
            if isinstance(n, ast.Assign) and isinstance(n.targets[0], ast.Name):
                v = n.value
                if isinstance(v, ast.Subscript) and dotted(v.value) in src:
                    ren[n.targets[0].id] = src[dotted(v.value)]
                if isinstance(v, ast.Call) and dotted(v.func) == "Responder":
                    ren[n.targets[0].id] = "responder"
        return ren

    def guards(node, f):
        out = []
        ren = roles(f)
        p, cur = parent(node), node
        while p is not None and p is not f.node:
            if isinstance(p, ast.If):
                pol = any(in_subtree(node, b) for b in p.body)
                out += guard_atoms(p.test, pol, ren)
            cur, p = p, parent(p)
        return out
    for n in walk_local(reqs.node):
        if isinstance(n, ast.Call) and (dotted(n.func) == "Responder" or (isinstance(n.func, ast.Attribute) and n.func.attr == "reset")):
            g = guards(n, reqs)
            ok = any(x == "requestant.ended" for x in g)
            run.ob("C18.R3", "%s:%s-under-request-ended" % (reqs.fq, "create" if dotted(n.func) == "Responder" else "reset"), ok, run.site(reqs, n),
                   "" if ok else "a responder is created/reset for a request that has not ended (guards: %s)" % g)
    for n in walk_local(reps.node):
        if isinstance(n, ast.Call) and isinstance(n.func, ast.Attribute) and n.func.attr == "makeParser":
            g = guards(n, reps)
            # ... and only when no parser is running: re-creating the parser of a request that is being received (its head already consumed
            # from the buffer) restarts parsing in the middle of the message
            ok = "responder.ended" in g and "requestant.persisted" in g and "requestant.parser is None" in g
            run.ob("C18.R3", "%s:next-request-after-response-ended" % reps.fq, ok, run.site(reps, n),
                   "" if ok else "the request parser is (re)created under guards %s; it must be created only after the response ended, on a persistent connection, "
                   "and only when no parser is running (`requestant.parser is None`): otherwise a request that arrives over several service passes "
                   "has its parser closed and restarted in mid-message" % g)
        if isinstance(n, ast.Call) and is_self_call(n, "closeConnection"):
            g = guards(n, reps)
            if "responder.ended" in g:
                ok = "not requestant.persisted" in g and any("txbs" in x and x.startswith("not ") for x in g)
                run.ob("C18.R3", "%s:close-iff-not-persisted-and-sent" % reps.fq, ok, run.site(reps, n),
                       "" if ok else "connection is closed after a response under guards %s; expected: not persisted and transmit buffer empty" % g)
    run.floor("C18.R3", 4)

    # R4 chunk decision
    build, start = ix.method(rcls, "build"), ix.method(rcls, "start")
    dec = [n for n in walk_local(build.node) if isinstance(n, ast.If) and any(isinstance(s, ast.Assign) and dotted(s.targets[0]) == "self.chunked"
                                                                                and getattr(s.value, "value", None) is True for s in n.body)]
    ok = len(dec) == 1 and isinstance(dec[0].test, ast.BoolOp) and isinstance(dec[0].test.op, ast.And) and dotted(dec[0].test.values[0]) == "self.chunkable" \
        and "transfer-encoding" in unparse(dec[0].test) and any("transfer-encoding" in unparse(s) and "chunked" in unparse(s) for s in dec[0].body if isinstance(s, ast.Assign))
    run.ob("C18.R4", "%s:chunked-iff-chunkable" % build.fq, ok, run.site(build, dec[0]) if dec else run.site(build),
           "" if ok else "build() must set chunked (and the transfer-encoding header) exactly when chunkable and no foreign transfer-encoding")
    off = [n for n in walk_local(start.node) if isinstance(n, ast.If) and "content-length" in unparse(n.test)
           and any(isinstance(s, ast.Assign) and dotted(s.targets[0]) == "self.chunkable" and getattr(s.value, "value", 1) is False for s in n.body)
           and any(isinstance(s, ast.Assign) and dotted(s.targets[0]) == "self.length" for s in n.body)]
    run.ob("C18.R4", "%s:content-length-turns-chunking-off" % start.fq, bool(off), run.site(start),
           "" if off else "start() must record Content-Length and turn chunking off when the application supplies it")
    run.floor("C18.R4", 2)
    message_state_checks(run)


class _AssignedDomain(Domain):
    """state = (assigned persisted?, frozenset of excluded versions)"""

    def initial(self):
        return (False, frozenset())

    def on_store(self, target, value, state, stmt):
        if dotted(target) == "self.persisted" and isinstance(value, ast.Constant) and isinstance(value.value, bool):
            return (True, state[1])
        return state

    def assume(self, test, truth, state):
        if isinstance(test, ast.Compare) and dotted(test.left) == "self.version" and isinstance(test.ops[0], ast.Eq):
            v = unparse(test.comparators[0])
            if truth:
                if v in state[1]:
                    return None
                return (state[0], state[1] | {("only", v)})
            excl = state[1] | {v}
            if {"(1, 0)", "(1, 1)"} <= excl:
                return None          # parseHead stores only these two versions
            return (state[0], excl)
        return super().assume(test, truth, state)


class _FreshDomain(Domain):
    """state = frozenset of self.<attr> containers (re)initialised on this path"""

    def __init__(self):
        self.bad = {}

    def initial(self):
        return frozenset()

    def on_store(self, target, value, state, stmt):
        d = dotted(target)
        if d and d.startswith("self.") and d.count(".") == 1:
            return state | {d}
        return state

    def on_delete(self, target, state, stmt):
        if isinstance(target, ast.Subscript) and isinstance(target.slice, ast.Slice) and target.slice.lower is None and target.slice.upper is None:
            d = dotted(target.value)
            if d:
                return state | {d}
        return state

    def on_event(self, node, state):
        if isinstance(node, ast.Call):
            mc = method_call(node)
            if mc and mc[0] and mc[0].startswith("self.") and mc[0].count(".") == 1:
                if mc[1] == "clear":
                    state = state | {mc[0]}
                elif mc[1] in ("update", "extend", "append", "add", "setdefault", "appendleft", "extendleft") and mc[0] not in state:
                    self.bad.setdefault(mc[0], node)
        yield state, NORMAL


def message_state_checks(run):
    """R5/R6: per-message parser state does not leak from the previous pipelined message."""
    from ..httpx import HC, HT
    ix = run.ix
    for mod, cname in ((HS, "Requestant"), (HC, "Respondent")):
        cls = ix.cls(mod, cname)
        cp = ix.method(cls, "checkPersisted")
        res = Interp(_AssignedDomain(), run.lat).run(cp.node)
        run.paths += len(res)
        bad = [tr for (st, oc), tr in res.items() if oc == RETURN and not st[0]]
        run.ob("C18.R5", "%s:persisted-definitely-assigned" % cp.fq, not bad, run.site(cp),
               "" if not bad else "%s.checkPersisted can return without assigning self.persisted: the request inherits the persistence of the "
               "previous message parsed on this connection (a plain HTTP/1.0 request after a keep-alive one is never closed)" % cname, bad[0] if bad else None)
        for meth in ("parseHead", "parseBody"):
            f = ix.method(cls, meth)
            dom = _FreshDomain()
            res = Interp(dom, run.lat).run(f.node)
            run.paths += len(res)
            filled = set()
            for n in walk_local(f.node):
                if isinstance(n, ast.Call):
                    mc = method_call(n)
                    if mc and mc[0] and mc[0].startswith("self.") and mc[0].count(".") == 1 and mc[1] in ("update", "extend", "append", "add"):
                        filled.add(mc[0])
            for attr in sorted(filled):
                node = dom.bad.get(attr)
                ok = node is None
                run.ob("C18.R6", "%s:%s-reset-before-filled" % (f.fq, attr), ok, run.site(f, node) if node is not None else run.site(f),
                       "" if ok else "`%s` fills %s on a path on which this message has not (re)initialised it: on a kept-alive connection the "
                       "container still holds the previous message's entries (stale headers / body bytes)" % (norm(node), attr))
    run.floor("C18.R5", 2)
    run.floor("C18.R6", 5)


MUTANTS = [
    Mutant("reset-without-headed", HS, "Responder.reset", "        self.headed = False\n", "", {"C18.R1"}, canary=True),
    Mutant("reintroduce-evented-not-reset", HS, "Responder.reset", "        self.evented = False", "        pass", {"C18.R1"}, canary=True),
    Mutant("reintroduce-chunkable-old-value", HS, "Responder.reset", "        if chunkable is not None:\n", "        if self.chunkable is not None:\n", {"C18.R1"}),
    Mutant("reintroduce-caller-omits-chunkable", HS, "Server.serviceReqs", "responder.reset(environ=environ, chunkable=chunkable)", "responder.reset(environ=environ)", {"C18.R1"}),
    Mutant("reset-size-accumulates", HS, "Responder.reset", "        self.size = 0\n", "        self.size = self.size * 0\n", {"C18.R1"}),
    Mutant("clamp-removed", HS, "Responder.write", "            if size > self.length:\n                msg = msg[:self.length - size]\n", "", {"C18.R2"}, canary=True),
    Mutant("clamp-off-by-one", HS, "Responder.write", "msg = msg[:self.length - size]", "msg = msg[:self.length - size + 1]", {"C18.R2"}),
    Mutant("makeparser-unguarded", HS, "Server.serviceReps", "                if requestant.persisted:\n                    if requestant.parser is None:  # reuse\n                        requestant.makeParser()  # resets requestant parser\n                else:",
           "                requestant.makeParser()\n                if requestant.persisted:\n                    pass\n                else:", {"C18.R3"}, canary=True),
    Mutant("close-regardless-of-persisted", HS, "Server.serviceReps", "                else:  # not persistent so close and remove requestant and responder\n", "                if True:\n", {"C18.R3"}),
    Mutant("chunked-always", HS, "Responder.build", "if self.chunkable and ('transfer-encoding' not in self.headers or", "if True and ('transfer-encoding' not in self.headers or", {"C18.R4"}),
    Mutant("http10-persisted-stale", HS, "Requestant.checkPersisted", "            self.persisted = False  # connections default to non-persisted\n", "            pass\n", {"C18.R5"}),
    Mutant("headers-not-reset", HS, "Requestant.parseHead", "        self.headers = help.Hict()\n", "", {"C18.R6"}),
    Mutant("body-not-cleared", HS, "Requestant.parseBody", "        del self.body[:]  # self.body.clear() clear body python2 bytearrays don't clear\n", "", {"C18.R6"}),
    Mutant("silent-reset-reordered", HS, "Responder.reset", "        self.started = False\n        self.headed = False\n", "        self.headed = False\n        self.started = False\n", silent=True),
]
