"""C28 - data-object serializations round-trip losslessly (clause level only; DESIGN 2.C28)."""
import ast

from ..core import Mutant, norm
from ..astutil import unparse, method_call
from ..index import dotted, walk_local

EXPLANATION = ("C28 (structural clauses only; equality after a round trip through the third-party codecs is NOT decided): for each "
               "of json / cbor / msgpack and for RawDom and IceRawDom the _asX method serialises with dumps of the library whose "
               "loads the _fromX method uses; every _asX serialises self._asdict() (the dictify intermediate) and every _fromX "
               "converts the decoded mapping with datify(cls, d) and raises unless the result is an instance of cls; datify "
               "recurses with the declared field type for every key; both classes agree with each other.")
ASSUMPTIONS = ["third-party codecs (json, cbor2, msgpack) are not analysed; value equality after a round trip is not decided"]
DM = "hio.help.doming"
FORMATS = {"json": "json", "cbor": "cbor", "mgpk": "msgpack"}


def lib_of(call):
    d = dotted(call.func) or ""
    return d.rsplit(".", 1)[0] if "." in d else None, d.rsplit(".", 1)[-1]


def check(run):
    ix = run.ix
    shapes = {}
    for cname in ("RawDom", "IceRawDom"):
        cls = ix.cls(DM, cname)
        for fmt, lib in sorted(FORMATS.items()):
            asf, fromf = ix.method(cls, "_as" + fmt), ix.method(cls, "_from" + fmt)
            dumps = [c for c in walk_local(asf.node) if isinstance(c, ast.Call) and lib_of(c)[1] in ("dumps", "packb", "dump")]
            loads = [c for c in walk_local(fromf.node) if isinstance(c, ast.Call) and lib_of(c)[1] in ("loads", "unpackb", "load")]
            ok = len(dumps) == 1 and len(loads) == 1 and lib_of(dumps[0])[0] == lib_of(loads[0])[0] == lib
            run.ob("C28.R1", "%s:%s:codec-pairing:%s" % (DM, cname, fmt), ok, run.site(asf),
                   "" if ok else "%s._as%s serialises with %s and %s._from%s parses with %s; both must use %s" % (
                       cname, fmt, [unparse(c.func) for c in dumps], cname, fmt, [unparse(c.func) for c in loads], lib))
            # R2 common intermediate
            arg = unparse(dumps[0].args[0]) if dumps and dumps[0].args else None
            # the reader side always goes through datify(), which honours the class's _datify hook; the writer must go through the
            # matching hook-honouring intermediate (self._asdict() -> dictify(self)), not dataclasses.asdict, which bypasses _dictify
            ok = arg in ("self._asdict()", "dictify(self)")
            run.ob("C28.R2", "%s:%s._as%s:serialises-asdict" % (DM, cname, fmt), ok, run.site(asf),
                   "" if ok else "_as%s serialises `%s`, not the hook-honouring dict intermediate self._asdict() that _from%s's datify() inverts: "
                   "a data object with a _dictify/_datify pair (or an overridden _asdict) does not round-trip in this format" % (fmt, arg, fmt))
            dvar = None
            for n in walk_local(fromf.node):
                if isinstance(n, ast.Assign) and n.value in loads and isinstance(n.targets[0], ast.Name):
                    dvar = n.targets[0].id
            dat = [n for n in walk_local(fromf.node) if isinstance(n, ast.Assign) and isinstance(n.value, ast.Call) and dotted(n.value.func) == "datify"]
            ok = bool(dat) and len(dat[0].value.args) == 2 and dotted(dat[0].value.args[0]) == "cls" and dotted(dat[0].value.args[1]) == dvar
            run.ob("C28.R2", "%s:%s._from%s:datify-of-decoded" % (DM, cname, fmt), ok, run.site(fromf),
                   "" if ok else "_from%s does not convert the decoded mapping with datify(cls, d)" % fmt)
            dom = dat[0].targets[0].id if dat and isinstance(dat[0].targets[0], ast.Name) else None
            # `if not isinstance(dom, cls): raise` ... `return dom`, in the loader's positive form `if isinstance(dom, cls): return dom else: raise`
            guard = [n for n in walk_local(fromf.node) if isinstance(n, ast.If) and unparse(n.test) == "isinstance(%s, cls)" % dom
                     and n.orelse and isinstance(n.orelse[-1], ast.Raise)] + \
                    [n for n in walk_local(fromf.node) if isinstance(n, ast.If) and n.body and isinstance(n.body[-1], ast.Raise)
                     and unparse(n.test) == "not isinstance(%s, cls)" % dom]
            rets = [n for n in walk_local(fromf.node) if isinstance(n, ast.Return)]
            # the returned name is the checked object, or a result variable assigned from it inside the guarded branch
            aliases = {dom} | {t.id for g_ in guard for st_ in g_.body for a_ in ast.walk(st_) if isinstance(a_, ast.Assign) and dotted(a_.value) == dom
                               for t in a_.targets if isinstance(t, ast.Name)}
            if len(rets) == 1 and dotted(rets[0].value) in aliases - {dom} and guard:
                ok_alias = True
            else:
                ok_alias = False
            ok = ok_alias or bool(guard) and len(rets) == 1 and dotted(rets[0].value) == dom and \
                (guard[0].lineno < rets[0].lineno and (any(rets[0] is x for st in guard[0].body for x in ast.walk(st)) or not guard[0].orelse))
            run.ob("C28.R2", "%s:%s._from%s:instance-check" % (DM, cname, fmt), ok, run.site(fromf),
                   "" if ok else "_from%s can return something that is not an instance of cls (a plain dict when datify gives up)" % fmt)
            shapes.setdefault(fmt, []).append((lib_of(dumps[0])[0] if dumps else None, lib_of(loads[0])[0] if loads else None,
                                               "hooked" if arg in ("self._asdict()", "dictify(self)") else arg, bool(dat), bool(guard),
                                               sorted(k.arg for k in dumps[0].keywords) if dumps else None,
                                               sorted("%s=%s" % (k.arg, unparse(k.value)) for k in loads[0].keywords) if loads else None))
    for fmt, pair in sorted(shapes.items()):
        ok = len(pair) == 2 and pair[0] == pair[1]
        run.ob("C28.R1", "%s:RawDom~IceRawDom:%s" % (DM, fmt), ok, "", "" if ok else "RawDom and IceRawDom implement the %s conversion differently" % fmt)
    run.floor("C28.R1", 9)
    run.floor("C28.R2", 18)
    # R3 datify recursion
    dat = ix.func(DM, "datify")
    ok = _datify_shape(dat)
    run.ob("C28.R3", "%s:recurses-with-field-type" % dat.fq, ok, run.site(dat), "" if ok else "datify no longer rebuilds every key of the mapping with the declared field type, recursively")
    dic = ix.func(DM, "dictify")
    ok = any(isinstance(c, ast.Call) and dotted(c.func) == "asdict" and len(c.args) == 1 and dotted(c.args[0]) == dic.params()[0][0] for c in walk_local(dic.node))
    run.ob("C28.R3", "%s:nested-to-dict" % dic.fq, ok, run.site(dic), "" if ok else "dictify does not fall back to dataclasses.asdict (nested conversion)")
    for cname in ("MapDom", "IceMapDom"):
        f = ix.method(ix.cls(DM, cname), "_asdict")
        ok = any(isinstance(n, ast.Return) and unparse(n.value) in ("dictify(self)", "asdict(self)") for n in walk_local(f.node))
        run.ob("C28.R3", "%s:asdict-is-dictify" % f.fq, ok, run.site(f), "" if ok else "%s._asdict is not dictify(self)" % cname)
    run.floor("C28.R3", 4)


def _datify_shape(dat):
    """datify(cls, d) structurally: T = {v.name: v.type for v in fields(cls)} and cls(**{k: datify(T[k], d[k]) for k in d}),
    whatever the locals are called."""
    pc, pd = dat.params()[0][:2]
    tables = set()
    for n in walk_local(dat.node):
        if isinstance(n, ast.Assign) and isinstance(n.targets[0], ast.Name) and isinstance(n.value, ast.DictComp) and len(n.value.generators) == 1:
            g = n.value.generators[0]
            v = g.target.id if isinstance(g.target, ast.Name) else None
            if v and dotted(n.value.key) == v + ".name" and dotted(n.value.value) == v + ".type" and not g.ifs \
                    and isinstance(g.iter, ast.Call) and dotted(g.iter.func) == "fields" and [dotted(a) for a in g.iter.args] == [pc]:
                tables.add(n.targets[0].id)
    for n in walk_local(dat.node):
        if isinstance(n, ast.Call) and dotted(n.func) == pc and not n.args and len(n.keywords) == 1 and n.keywords[0].arg is None \
                and isinstance(n.keywords[0].value, ast.DictComp) and len(n.keywords[0].value.generators) == 1:
            dc = n.keywords[0].value
            g = dc.generators[0]
            k = g.target.id if isinstance(g.target, ast.Name) else None
            if not k or g.ifs or dotted(g.iter) != pd or dotted(dc.key) != k:
                continue
            c = dc.value
            if isinstance(c, ast.Call) and dotted(c.func) == "datify" and len(c.args) == 2 and not c.keywords:
                a0, a1 = c.args
                if isinstance(a0, ast.Subscript) and dotted(a0.value) in tables and dotted(a0.slice) == k \
                        and isinstance(a1, ast.Subscript) and dotted(a1.value) == pd and dotted(a1.slice) == k:
                    return True
    return False


MUTANTS = [
    Mutant("mgpk-writer-bypasses-dictify-hook", DM, "RawDom._asmgpk", "msgpack.dumps(self._asdict())", "msgpack.dumps(asdict(self))", {"C28.R2", "C28.R1"}),
    Mutant("ascbor-with-msgpack", DM, "RawDom._ascbor", "return cbor.dumps(self._asdict())", "return msgpack.dumps(self._asdict())", {"C28.R1"}, canary=True),
    Mutant("asjson-of-tuple", DM, "RawDom._asjson", "json.dumps(self._asdict(),", "json.dumps(astuple(self),", {"C28.R2"}, canary=True),
    Mutant("fromjson-no-instance-check", DM, "IceRawDom._fromjson", "        if not isinstance(dom, cls):\n            raise ValueError(\"Invalid dict={d} to datify as dataclass={cls}.\")\n", "", {"C28.R2"}, canary=True),
    Mutant("frommgpk-flat", DM, "RawDom._frommgpk", "dom = datify(cls, d)", "dom = cls(**d)", {"C28.R2"}),
    Mutant("datify-not-recursive", DM, "datify", "cls(**{f: datify(fieldtypes[f], d[f]) for f in d})", "cls(**{f: d[f] for f in d})", {"C28.R3"}),
    Mutant("ice-mgpk-tuples", DM, "IceRawDom._frommgpk", "d = msgpack.loads(s)", "d = msgpack.loads(s, use_list=False)", {"C28.R1"}),
    Mutant("silent-dictify-self", DM, "RawDom._ascbor", "cbor.dumps(self._asdict())", "cbor.dumps(dictify(self))", silent=True),
]
