"""C24 - keyed durable stores match a dictionary model for all keys (DESIGN 2.C24)."""
import ast
import re

from ..core import Mutant, norm
from ..astutil import method_call, unparse, parent, in_subtree, kwarg, flat, ancestors
from ..index import dotted, walk_local

EXPLANATION = ("C24: every call from IoSuber / IoSetSuber to a Duror *Io* method passes sep=self.ionsep; suffix() writes a "
               "%032x ordinal of width SuffixSize joined by sep and unsuffix() splits at the rightmost sep and converts base "
               "16; every key-scoped cursor scan compares the unsuffixed key with the requested key before using or deleting "
               "an entry; key-range isolation: either a scan continues past foreign keys inside the key's suffix range or "
               "the key constructor rejects/escapes keys containing the separator.")
ASSUMPTIONS = ["model equivalence over operation sequences is not decided"]
DU = "hio.base.during"
SCANS = ("getIoValFirst", "getIoValLast", "getIoVals", "getIoValsIter", "popIoVal", "remIoVals", "addIoVal", "putIoVals",
         "addIoSetVal", "putIoSetVals", "remIoSetVal")


def check(run):
    ix = run.ix
    # R1 sep pass-through
    n = 0
    for cname in ("IoSuber", "IoSetSuber"):
        cls = ix.cls(DU, cname)
        for name, f in sorted(cls.methods.items()):
            for c in [x for x in walk_local(f.node) if isinstance(x, ast.Call)]:
                mc = method_call(c)
                if mc and mc[0] == "self.db" and "Io" in mc[1]:
                    sep = kwarg(c, "sep")
                    ok = sep is not None and dotted(sep) == "self.ionsep"
                    run.ob("C24.R1", "%s:%s-passes-ionsep" % (f.fq, mc[1]), ok, run.site(f, c),
                           "" if ok else "%s.%s calls self.db.%s without sep=self.ionsep: keys written with this sub-database's separator are read "
                           "back with the default '.'" % (cname, name, mc[1]))
                    n += 1
                    run.sites += 1
    run.floor("C24.R1", 23)
    # R2 suffix / unsuffix
    duror = ix.cls(DU, "Duror")
    suf, uns = ix.method(duror, "suffix"), ix.method(duror, "unsuffix")
    size = duror.assigns.get("SuffixSize")
    size = size.value if isinstance(size, ast.Constant) else None
    fmt = [n.left.value for n in walk_local(suf.node) if isinstance(n, ast.BinOp) and isinstance(n.op, ast.Mod) and isinstance(n.left, ast.Constant)]
    m = re.fullmatch(rb"%0(\d+)x", fmt[0]) if fmt and isinstance(fmt[0], bytes) else None
    ok = m is not None and size is not None and int(m.group(1)) == size
    run.ob("C24.R2", "%s:suffix-width" % suf.fq, ok, run.site(suf), "" if ok else "suffix() formats the ordinal with %s but SuffixSize is %s (fixed width lower-case hex is required for ordering)" % (fmt, size))
    ok = any(isinstance(n, ast.Call) and isinstance(n.func, ast.Attribute) and n.func.attr == "join" and dotted(n.func.value) == "sep" for n in walk_local(suf.node))
    run.ob("C24.R2", "%s:joined-by-sep" % suf.fq, ok, run.site(suf), "" if ok else "suffix() does not join key and ordinal with sep")
    sp = [n for n in walk_local(uns.node) if isinstance(n, ast.Call) and isinstance(n.func, ast.Attribute) and n.func.attr in ("rsplit", "split", "rpartition", "partition")]
    ok = bool(sp) and sp[0].func.attr == "rsplit" and dotted(kwarg(sp[0], "sep") or (sp[0].args[0] if sp[0].args else None)) == "sep" \
        and getattr(kwarg(sp[0], "maxsplit") or (sp[0].args[1] if len(sp[0].args) > 1 else None), "value", None) == 1
    run.ob("C24.R2", "%s:splits-at-rightmost-sep" % uns.fq, ok, run.site(uns), "" if ok else "unsuffix() must split once at the rightmost separator (keys may contain the separator)")
    conv = [n for n in walk_local(uns.node) if isinstance(n, ast.Call) and dotted(n.func) == "int" and len(n.args) == 2]
    ok = bool(conv) and getattr(conv[0].args[1], "value", None) == 16
    run.ob("C24.R2", "%s:ordinal-base-16" % uns.fq, ok, run.site(uns), "" if ok else "unsuffix() does not read the ordinal in base 16")
    mx = duror.assigns.get("MaxSuffix")
    ok = mx is not None and re.sub(r"\s", "", unparse(mx)) in ("int('f'*SuffixSize,16)", "int('f'*(SuffixSize),16)", "16**SuffixSize-1")
    run.ob("C24.R2", "%s:MaxSuffix" % DU, ok, run.site(suf), "" if ok else "MaxSuffix is `%s`, expected SuffixSize hex digits of f" % (unparse(mx) if mx is not None else None))
    run.floor("C24.R2", 5)
    # R3 foreign-key guard + R4 range isolation
    stops = []
    for name in SCANS:
        f = ix.method(duror, name)
        uses = [n for n in walk_local(f.node) if isinstance(n, ast.Assign) and isinstance(n.value, ast.Call) and method_call(n.value) == ("self", "unsuffix")]
        if not uses:
            delegates = any(isinstance(c, ast.Call) and (method_call(c) or ("", ""))[0] == "self" and method_call(c)[1] in SCANS and method_call(c)[1] != name
                            for c in walk_local(f.node))
            if delegates and not any(isinstance(c, ast.Call) and isinstance(c.func, ast.Attribute) and c.func.attr in ("iternext", "set_range") for c in walk_local(f.node)):
                continue        # no cursor work of its own: it is built on another scan, which is checked
            run.inconclusive_at("C24.R3", run.site(f), "scan does not call self.unsuffix on the cursor key: key comparison idiom not recognised")
            continue
        for u in uses:
            ck = u.targets[0].elts[0].id if isinstance(u.targets[0], ast.Tuple) else None
            blk = None
            p = parent(u)
            for field in ("body", "orelse"):
                b = getattr(p, field, None)
                if isinstance(b, list) and u in b:
                    blk = b
            nxt = blk[blk.index(u) + 1] if blk and blk.index(u) + 1 < len(blk) else None
            ok = isinstance(nxt, ast.If) and isinstance(nxt.test, ast.Compare) and {dotted(nxt.test.left), dotted(nxt.test.comparators[0])} == {ck, "key"} \
                and isinstance(nxt.test.ops[0], (ast.Eq, ast.NotEq))
            # inside a scan loop nothing may touch the entry before it is known to belong to the key
            loop = next((a for a in ancestors(u) if isinstance(a, (ast.For, ast.While))), None)
            early = []
            if loop is not None:
                seq = list(flat(loop.body))
                if u in seq:
                    early = [unparse(st) for st in seq[:seq.index(u)]]
            if ok and early:
                ok = False
                run.ob("C24.R3", "%s:entry-used-before-range-test:%d" % (f.fq, uses.index(u)), False, run.site(f, u),
                       "`%s` runs on the entry under the cursor before its key is compared with the requested key: the first entry of the "
                       "next key is matched / deleted / counted as if it belonged to this key" % early[0].split("\n")[0])
                continue
            run.ob("C24.R3", "%s:foreign-key-guard:%d" % (f.fq, uses.index(u)), ok, run.site(f, u),
                   "" if ok else "the entry under the cursor is used without comparing its unsuffixed key with the requested key: an entry of "
                   "another key is returned / deleted / counted")
            if ok:
                foreign = nxt.body if isinstance(nxt.test.ops[0], ast.NotEq) else nxt.orelse
                stop = (not foreign) or any(isinstance(s, (ast.Break, ast.Return)) for s in foreign) or isinstance(nxt.test.ops[0], ast.Eq)
                stops.append((f, nxt, stop))
    run.floor("C24.R3", 10)
    ordinal_obs(run, "C24.R5")
    # R4 disjunction
    tokey = ix.func(DU, "SuberBase._tokey")
    validates = any(isinstance(n, ast.Raise) and any("sep" in unparse(t) for t in [parent(n)] if isinstance(t, ast.If) for _ in [0]) for n in walk_local(tokey.node)) or \
        any(isinstance(n, ast.If) and "ionsep" in unparse(n.test) and any(isinstance(x, ast.Raise) for x in ast.walk(n)) for n in walk_local(tokey.node)) or \
        any(isinstance(n, ast.Raise) for n in walk_local(suf.node))
    continues = stops and all(not st for f, n, st in stops)
    ok = bool(validates or continues)
    run.ob("C24.R4", "%s:key-range-isolation" % DU, ok, run.site(suf),
           "" if ok else "stored keys are key+sep+32 hex digits, so a key that itself ends in sep+32 hex digits sorts inside the ordinal range of "
           "its prefix; all %d key-scoped scans stop at the first foreign key and neither suffix() nor _tokey() rejects or escapes "
           "such keys: after add('a',v0..v2) an add('a.0..01', x) makes get('a') return only v0,v1" % len(stops))
    run.floor("C24.R4", 1)


def ordinal_obs(run, rule):
    """the four appending writers continue one past the LAST stored ordinal (not the count of entries)"""
    from ..linear import linform, same
    ix = run.ix
    duror = ix.cls(DU, "Duror")
    for name in ("addIoVal", "putIoVals", "addIoSetVal", "putIoSetVals"):
        f = ix.method(duror, name)
        # the ordinal local is whichever name is passed as the ordinal of self.suffix(key, <ordinal>, ...)
        ionvars = {c.args[1].id for c in walk_local(f.node) if isinstance(c, ast.Call) and method_call(c) == ("self", "suffix")
                   and len(c.args) >= 2 and isinstance(c.args[1], ast.Name)}
        upd = [n for n in walk_local(f.node) if isinstance(n, (ast.Assign, ast.AugAssign)) and dotted(n.targets[0] if isinstance(n, ast.Assign) else n.target) in ionvars
               and any(isinstance(p_, (ast.For, ast.While)) for p_ in _anc(n))]
        ok = bool(upd)
        txt = None
        ordvars = {u.targets[0].elts[1].id for u in walk_local(f.node) if isinstance(u, ast.Assign) and isinstance(u.value, ast.Call)
                   and method_call(u.value) == ("self", "unsuffix") and isinstance(u.targets[0], ast.Tuple) and len(u.targets[0].elts) == 2
                   and isinstance(u.targets[0].elts[1], ast.Name)}
        for n in upd:
            txt = unparse(n)
            lf = linform(n.value) if isinstance(n, ast.Assign) else None
            ok = ok and lf is not None and lf.get(1) == 1 and len(lf) == 2 and (set(lf) - {1}) <= ordvars
        run.ob(rule, "%s:next-ordinal-is-last-plus-one" % f.fq, ok, run.site(f, upd[0]) if upd else run.site(f),
               "" if ok else "%s computes the next ordinal with `%s`; once a key's ordinals no longer start at 0 (after a pop / remove) anything but "
               "`last ordinal + 1` lands on an ordinal that is still occupied and overwrites or loses a stored value" % (name, txt))
    run.floor(rule, 4)


def _anc(n):
    p_ = parent(n)
    while p_ is not None:
        yield p_
        p_ = parent(p_)


MUTANTS = [
    Mutant("remioset-match-before-range-test", DU, "Duror.remIoSetVal", "                    ckey, cion = self.unsuffix(iokey, sep=sep)\n                    if ckey != key:  # prev entry if any was the last entry for key\n                        break  # done\n                    if val == cval:\n                        return cursor.delete()  # delete also moves to next so doubly moved\n",
           "                    if val == cval:\n                        return cursor.delete()  # delete also moves to next so doubly moved\n                    ckey, cion = self.unsuffix(iokey, sep=sep)\n                    if ckey != key:  # prev entry if any was the last entry for key\n                        break  # done\n", {"C24.R3"}),
    Mutant("ordinal-by-count", DU, "Duror.addIoVal", "ion = cion + 1  # next ion is increment of found cion", "ion += 1", {"C24.R5"}),
    Mutant("reintroduce-add-no-sep", DU, "IoSuber.add", ",\n                                    sep=self.ionsep))", "))", {"C24.R1"}, canary=True),
    Mutant("reintroduce-pop-no-sep", DU, "IoSetSuber.pop", ",\n                               sep=self.ionsep)", ")", {"C24.R1"}),
    Mutant("suffix-width-16", DU, "Duror.suffix", 'b"%032x"', 'b"%016x"', {"C24.R2"}, canary=True),
    Mutant("unsuffix-split-left", DU, "Duror.unsuffix", "iokey.rsplit(sep=sep, maxsplit=1)", "iokey.split(sep=sep, maxsplit=1)", {"C24.R2"}),
    Mutant("unsuffix-base-10", DU, "Duror.unsuffix", "ion = int(ion, 16)", "ion = int(ion, 10)", {"C24.R2"}),
    Mutant("drop-foreign-guard-pop", DU, "Duror.popIoVal", "                if ckey == key:  # first entry for key >= iokey at ion\n                    val = bytes(cval) # make copy so not deleted\n                    cursor.delete()\n                    return val",
           "                if True:\n                    val = bytes(cval) # make copy so not deleted\n                    cursor.delete()\n                    return val", {"C24.R3"}, canary=True),
    Mutant("drop-foreign-guard-rem", DU, "Duror.remIoVals", "                    if ckey != key:  # past key\n                        break\n", "", {"C24.R3"}),
    Mutant("silent-sep-kw-order", DU, "IoSuber.cnt", "        return (self.db.cntIoVals(sdb=self.sdb,", "        return (self.db.cntIoVals(  sdb=self.sdb,", silent=True),
]
