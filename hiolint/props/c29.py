"""C29 - file resources stay inside their directory and temp resources are removed (DESIGN 2.C29)."""
import ast

from ..core import Mutant, norm
from ..astutil import unparse, method_call, parent, keytext, flat
from ..index import dotted, walk_local

EXPLANATION = ("C29: containment sanitizer: name/base flow into the path argument of every filesystem sink of Filer.remake "
               "(os.makedirs, os.remove, shutil.rmtree, os.chmod, ocfn) and, through self.path, of _clearPath; before the first "
               "sink a raising guard must establish containment of the normalised base/name (recognised idioms: normpath/relpath "
               "of the join not starting with '..', rejection of '..' segments, commonpath / prefix-with-separator test on the "
               "absolute path); path-depth domain: closing a temp Filer with clear must have a removal sink whose argument can be "
               "the mkdtemp directory itself.")
ASSUMPTIONS = ["the filesystem state itself is not decided", "symbolic links are not modelled"]
FL = "hio.base.filing"
SINKS = {"os.makedirs", "os.remove", "shutil.rmtree", "os.chmod", "ocfn", "os.rmdir", "os.unlink", "os.mkdir", "open"}


def containment_guard(f):
    """(kind, node): 'contained' for a recognised idiom, 'unknown' for an unrecognised guard on name/base, None for none."""
    found = None
    first_sink = min([n.lineno for n in walk_local(f.node) if isinstance(n, ast.Call) and (dotted(n.func) in SINKS or dotted(n.func) == "tempfile.mkdtemp")] or [10 ** 9])
    defs = {}
    for st in flat(f.node.body):
        if isinstance(st, ast.Assign) and isinstance(st.targets[0], ast.Name):
            defs[st.targets[0].id] = st.value
    def has_sink(node):
        return any(isinstance(n, ast.Call) and (dotted(n.func) in SINKS or dotted(n.func) == "tempfile.mkdtemp") for n in ast.walk(node))
    for st in flat(f.node.body):
        # guards count only while no filesystem sink has been passed (statement order, not line numbers: expanded helpers keep their own lines)
        raising = isinstance(st, ast.If) and ((st.body and isinstance(st.body[-1], ast.Raise)) or (st.orelse and isinstance(st.orelse[-1], ast.Raise)))
        if not raising:
            if has_sink(st) and not isinstance(st, ast.If):
                break
            continue
        if st.orelse and isinstance(st.orelse[-1], ast.Raise) and not (st.body and isinstance(st.body[-1], ast.Raise)):
            # positive form `if <ok>: REST else: raise`: read it as the guard `if not <ok>: raise`
            st = ast.copy_location(ast.If(test=ast.UnaryOp(op=ast.Not(), operand=st.test), body=st.orelse, orelse=[]), st)
        t = unparse(st.test)
        names = {x.id for x in ast.walk(st.test) if isinstance(x, ast.Name)}
        srcs = set(names)
        for n in list(names):
            if n in defs:
                srcs |= {x.id for x in ast.walk(defs[n]) if isinstance(x, ast.Name)}
                t += " <- " + unparse(defs[n])
        if not ({"name", "base"} & srcs):
            continue
        if "isabs" in t and ".." not in t and "pardir" not in t and "commonpath" not in t:
            continue        # absolute-path rejection only: not a containment test
        both = {"name", "base"} <= srcs
        pard = ("os.pardir" in t or "'..'" in t)
        norm_ = ("normpath(" in t or "relpath(" in t)
        if both and pard and norm_ and ("startswith(" in t) and (" == " in t or "==" in t):
            return "contained", st
        if "os.path.split(" in t and pard:
            found = ("partial:all but the last two path components (os.path.split only separates head and tail)", st)
            continue
        if both and pard and ".split(" in t and " in " in t:
            return "contained", st
        if both and ("commonpath(" in t):
            return "contained", st
        if not both and pard and (norm_ or ".split(" in t):
            found = ("partial:" + ",".join(sorted({"name", "base"} - srcs)), st)
            continue
        found = ("unknown", st)
    return found if found else (None, None)


def check(run):
    ix = run.ix
    cls = ix.cls(FL, "Filer")
    remake, clearp, exists = ix.method(cls, "remake"), ix.method(cls, "_clearPath"), ix.method(cls, "exists")
    # sinks and their taint
    sinks = [n for n in walk_local(remake.node) if isinstance(n, ast.Call) and dotted(n.func) in SINKS]
    # path locals: whatever is handed to a filesystem sink as its path argument
    sunk = {dotted(c.args[0]) for c in sinks if c.args}
    pathdefs = [n for n in walk_local(remake.node) if isinstance(n, ast.Assign) and isinstance(n.targets[0], ast.Name) and n.targets[0].id in sunk]
    tainted_defs = [n for n in pathdefs if {"name", "base"} <= {x.id for x in ast.walk(n.value) if isinstance(x, ast.Name)}]
    run.sites += len(sinks)
    run.ob("C29.R1", "%s:sinks-found" % remake.fq, len(sinks) >= 15 and len(tainted_defs) >= 3, run.site(remake),
           "" if len(sinks) >= 15 else "only %d filesystem sinks / %d path constructions found in remake" % (len(sinks), len(tainted_defs)))
    kind, node = containment_guard(remake)
    if kind == "unknown":
        run.inconclusive_at("C29.R1", run.site(remake, node), "guard `%s` on name/base is none of the recognised containment idioms" % unparse(node.test))
    else:
        ok = kind == "contained"
        if kind and kind.startswith("partial"):
            run.ob("C29.R1", "%s:containment-guard-before-sinks" % remake.fq, False, run.site(remake, node),
                   "the containment guard `%s` does not cover %s, which still reaches the filesystem sinks unchecked" % (unparse(node.test), kind.split(":", 1)[1]))
        else:
          run.ob("C29.R1", "%s:containment-guard-before-sinks" % remake.fq, ok, run.site(remake, node) if node is not None else run.site(remake),
               "" if ok else "name and base reach %d filesystem sinks through abspath(join(head, tail, base, name)) and only absoluteness is tested: "
               "base='../../../x' makes Filer create, chmod and later remove a directory outside its head directory" % len(sinks))
    # normalisation present: abspath(join(...)) for each tainted construction
    for i, n in enumerate(sorted(tainted_defs, key=lambda x: x.lineno)):
        t = unparse(n.value)
        ok = t.startswith("os.path.abspath(") and "os.path.join(" in t
        run.ob("C29.R1", "%s:path-normalised:%d" % (remake.fq, i), ok, run.site(remake, n), "" if ok else "path is built as `%s` without abspath(join(..))" % t)
    # every construction of a path from a caller-supplied head directory goes through the same normalisers: a head such as "~/store" must
    # mean the same directory where the resource is made (remake), where it is looked up (exists) and in the fallback; only the temp
    # branch (head from mkdtemp) is exempt
    temp_heads = {n.targets[0].id for n in walk_local(remake.node) if isinstance(n, ast.Assign) and isinstance(n.targets[0], ast.Name)
                  and isinstance(n.value, ast.Call) and dotted(n.value.func) == "tempfile.mkdtemp"}
    chains = []
    for g in (remake, exists):
        for n in walk_local(g.node):
            if isinstance(n, ast.Assign) and isinstance(n.value, ast.Call) and any(isinstance(c, ast.Call) and dotted(c.func) == "os.path.join" for c in ast.walk(n.value)):
                join = next(c for c in ast.walk(n.value) if isinstance(c, ast.Call) and dotted(c.func) == "os.path.join")
                if not join.args or not {"name", "base"} <= {x.id for a in join.args for x in ast.walk(a) if isinstance(x, ast.Name)}:
                    continue
                head = dotted(join.args[0])
                if head in ("name", "base"):
                    continue        # relative part only (the containment guard), no head directory involved
                pb = parent(n)
                blk = next((getattr(pb, fld) for fld in ("body", "orelse") if isinstance(getattr(pb, fld, None), list) and n in getattr(pb, fld)), [])
                if any(isinstance(st, ast.Assign) and isinstance(st.value, ast.Call) and dotted(st.value.func) == "tempfile.mkdtemp"
                       and dotted(st.targets[0]) == head for st in blk[:blk.index(n)] if blk):
                    continue        # the mkdtemp head of the temp branch
                chain = []
                e = n.value
                while isinstance(e, ast.Call) and e is not join and e.args:
                    chain.append(dotted(e.func))
                    e = e.args[0]
                chains.append((g, n, tuple(chain)))
    kinds = sorted({c for g, n, c in chains})
    ok = len(chains) >= 5 and len(kinds) == 1 and "os.path.expanduser" in kinds[0] and kinds[0][0] == "os.path.abspath"
    odd = [(g, n, c) for g, n, c in chains if c != ("os.path.abspath", "os.path.expanduser")]
    run.ob("C29.R1", "%s:head-paths-normalised-alike" % FL, ok, run.site(odd[0][0], odd[0][1]) if odd else run.site(remake),
           "" if ok else "paths built from a caller-supplied head directory are normalised differently at %d site(s) (%s; the others use abspath(expanduser("
           "join(...)))): with a head such as '~/store' the resource is created under <cwd>/~/store, outside the head directory that exists() "
           "and the fallback use" % (len(odd), ", ".join("%s:%d %s" % (g.qualname, n.lineno, "∘".join(x.split(".")[-1] for x in c) or "none") for g, n, c in odd[:3])))
    # _clearPath sinks only on self.path or its dirname
    csinks = [n for n in walk_local(clearp.node) if isinstance(n, ast.Call) and dotted(n.func) in SINKS]
    defs = {}
    for n in walk_local(clearp.node):
        if isinstance(n, ast.Assign) and isinstance(n.targets[0], ast.Tuple) and isinstance(n.value, ast.Call) and dotted(n.value.func) == "os.path.split":
            defs[n.targets[0].elts[0].id] = ("dirname", dotted(n.value.args[0]))
    depth0 = False
    for c in csinks:
        a = c.args[0]
        d = dotted(a)
        if d == "self.path":
            depth = 2
            ok = True
        elif d in defs and defs[d][1] == "self.path":
            depth = 1
            ok = True
        elif isinstance(a, ast.Call) and dotted(a.func) == "os.path.dirname" and dotted(a.args[0]) == "self.path":
            depth = 1
            ok = True
        else:
            depth = None
            ok = d is not None and d.startswith("self.") and any(
                isinstance(s, ast.Assign) and dotted(s.targets[0]) == d and "mkdtemp" in unparse(s.value) for s in walk_local(remake.node))
            if ok:
                depth = 0
                depth0 = True
        run.ob("C29.R1", "%s:removes-own-path-only:%s" % (clearp.fq, keytext(clearp, c)), ok, run.site(clearp, c),
               "" if ok else "_clearPath removes `%s`, which is not the Filer's own path (or its directory)" % norm(a))
    run.floor("C29.R1", 9)
    # R3 the old resource is released under the old configuration: reopen() closes/clears before it changes what _clearPath reads
    reopen = ix.method(cls, "reopen")
    reads = {dotted(n) for g in (clearp, ix.method(cls, "close")) for n in walk_local(g.node) if isinstance(n, ast.Attribute) and isinstance(n.ctx, ast.Load)
             and dotted(n) and dotted(n).startswith("self.") and dotted(n).count(".") == 1}
    closes = [n for n in walk_local(reopen.node) if isinstance(n, ast.Call) and method_call(n) == ("self", "close")]
    early = [n for n in walk_local(reopen.node) if isinstance(n, ast.Assign) and dotted(n.targets[0]) in reads and closes and n.lineno < closes[0].lineno]
    ok = bool(closes) and not early
    run.ob("C29.R3", "%s:clears-before-reconfiguring" % reopen.fq, ok, run.site(reopen, early[0]) if early else run.site(reopen),
           "" if ok else "reopen() assigns `%s` before self.close(clear=...): the old path is cleared under the new settings (a persistent file "
           "Filer reopened with temp=True, clear=True removes its whole directory with sibling files)" % (unparse(early[0]) if early else None))
    run.floor("C29.R3", 1)
    # R2 temp head removable
    mk = [n for n in walk_local(remake.node) if isinstance(n, ast.Assign) and isinstance(n.value, ast.Call) and dotted(n.value.func) == "tempfile.mkdtemp"]
    ok = bool(mk) and depth0
    run.ob("C29.R2", "%s:temp-head-removable" % FL, ok, run.site(clearp),
           "" if ok else "the temp branch creates the directory mkdtemp(...) and keeps only the path at least two components below it "
           "(tail dir + name); every removal in _clearPath targets that path or its dirname, so the mkdtemp directory itself "
           "(/tmp/hio_..._test) survives close(clear=True)")
    run.floor("C29.R2", 1)


MUTANTS = [
    Mutant("primary-path-without-expanduser", FL, "Filer.remake", "            path = os.path.abspath(\n                        os.path.expanduser(\n                            os.path.join(headDirPath,\n                                         tailDirPath,\n                                         base,\n                                         name)))\n\n            if clean and os.path.exists(path):",
           "            path = os.path.abspath(\n                            os.path.join(headDirPath,\n                                         tailDirPath,\n                                         base,\n                                         name))\n\n            if clean and os.path.exists(path):", {"C29.R1"}),
    Mutant("reintroduce-no-containment", FL, "Filer.remake", "        rel = os.path.normpath(os.path.join(base, name))  # collapse any .. segments\n        if rel == os.pardir or rel.startswith(os.pardir + os.sep):\n            raise hioing.FilerError(f\"Path {base=} {name=} escapes head directory.\")\n", "", {"C29.R1"}, canary=True),
    Mutant("containment-name-only", FL, "Filer.remake", "rel = os.path.normpath(os.path.join(base, name))", "rel = os.path.normpath(name)", {"C29.R1"}),
    Mutant("clearpath-removes-headdir", FL, "Filer._clearPath", "                shutil.rmtree(self.path)  # remove trailing dir of path (and all below)", "                shutil.rmtree(self.headDirPath)", {"C29.R1"}, canary=True),
    Mutant("path-not-normalised", FL, "Filer.remake", "            path = os.path.abspath(\n                                os.path.join(headDirPath,\n                                             tailDirPath,\n                                             base,\n                                             name))", "            path = os.path.join(headDirPath, tailDirPath, base, name)", {"C29.R1"}),
    Mutant("guard-ospath-split", FL, "Filer.remake", "if rel == os.pardir or rel.startswith(os.pardir + os.sep):", "if os.pardir in os.path.split(rel):", {"C29.R1"}),
    Mutant("reopen-close-after-config", FL, "Filer.reopen", "        self.close(clear=clear)\n\n        if temp is not None:\n            self.temp = temp\n", "        if temp is not None:\n            self.temp = temp\n        self.close(clear=clear)\n", {"C29.R3"}),
    Mutant("silent-segments-idiom", FL, "Filer.remake", "        rel = os.path.normpath(os.path.join(base, name))  # collapse any .. segments\n        if rel == os.pardir or rel.startswith(os.pardir + os.sep):", "        rel = os.path.join(base, name)\n        if os.pardir in rel.split(os.sep):", silent=True),
]
