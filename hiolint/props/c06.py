"""C06 - runtime extend/remove take effect exactly and preserve membership (DESIGN 2.C06)."""
from ..core import Mutant, norm
from .. import sched

EXPLANATION = ("C06: extend enters/appends the list filtered against self.doers (not the raw argument) and joins the new "
               "deeds at the right end (after the marker => next cycle); remove filters on membership, rotates exactly "
               "len(deeds) items re-appending the marker, closes the removed deeds, removes each from self.doers; "
               "self.doers is written only by __init__, do/ado, extend, remove and the property setter.")
ASSUMPTIONS = ["duplicates inside one extend() argument are not decided", "ordering of an extended doer relative to siblings is not decided"]
M = sched.MOD
ALLOWED_WRITERS = {"__init__", "do", "ado", "extend", "remove", "doers@setter"}


def facts_obs(run, rule, cls, facts, expect, meth):
    for name, want in expect.items():
        val, site = facts[name]
        ok = val == want
        run.ob(rule, "%s:%s.%s:%s" % (M, cls.name, meth, name), ok, site,
               "" if ok else "%s is %s, expected %s" % (name, val, want))


def check(run):
    ix = run.ix
    doist, dodoer = ix.cls(M, "Doist"), ix.cls(M, "DoDoer")
    for cls in (doist, dodoer):
        facts_obs(run, "C06.R1", cls, sched.extend_facts(run, cls), sched.EXPECT_EXTEND, "extend")
        facts_obs(run, "C06.R1", cls, sched.extend_atomic_facts(run, cls), {"extend.failed-enter-leaves-doers-unchanged": True}, "extend")
        ef = sched.enter_facts(run, cls)
        facts_obs(run, "C06.R1", cls, {"enter.own-deeds-selected-by": ef["enter.own-deeds-selected-by"]}, {"enter.own-deeds-selected-by": ("is-none",)}, "enter")
        facts_obs(run, "C06.R2", cls, sched.remove_facts(run, cls), sched.EXPECT_REMOVE, "remove")
        f = ix.method(cls, "remove")
        for fa in sched.conservation_facts(run, f, "remove"):
            run.ob("C06.R2", "%s:%s" % (f.fq, fa.name), fa.ok, fa.site, fa.what, fa.trail)
    writers = sched.doers_writers(run)
    for (cfq, meth), sites in sorted(writers.items()):
        for f, node in sites:
            if ix.expanded_helper(f):
                continue        # a new helper: its body was expanded into (and is judged at) its callers
            ok = meth in ALLOWED_WRITERS
            run.ob("C06.R3", "%s.%s:writes-doers:%s" % (cfq, meth, norm(node)), ok, run.site(f, node),
                   "" if ok else "the doer list is mutated outside __init__/do/ado/extend/remove: `%s`" % norm(node))
    run.floor("C06.R1", 6)
    run.floor("C06.R2", 14)
    run.floor("C06.R3", 9)


MUTANTS = [
    Mutant("extend-no-filter", M, "Doist.extend", "        doers = [doer for doer in doers if doer not in self.doers] # ensure unique\n", "", {"C06.R1"}, canary=True),
    Mutant("extend-enter-raw", M, "DoDoer.extend", "        doers = [doer for doer in doers if doer not in self.doers] # ensure unique\n        deeds = self.enter(doers=doers)",
           "        fresh = [doer for doer in doers if doer not in self.doers] # ensure unique\n        deeds = self.enter(doers=doers)\n        doers = fresh", {"C06.R1"}),
    Mutant("extend-left", M, "Doist.extend", "self.deeds.extend(deeds)", "self.deeds.extendleft(deeds)", {"C06.R1"}, canary=True),
    Mutant("remove-keep-doers", M, "Doist.remove", "            self.doers.remove(doer)", "            pass", {"C06.R2"}, canary=True),
    Mutant("remove-raw-membership", M, "DoDoer.remove", "elif doer in rdoers:", "elif doer in doers:", {"C06.R2"}),
    Mutant("remove-while-loop", M, "Doist.remove", "for i in range(len(deeds)):", "while deeds:", {"C06.R2"}),
    Mutant("recur-clears-doers", M, "DoDoer.recur", "        return (not deeds)", "        if not deeds:\n            self.doers.clear()\n        return (not deeds)", {"C06.R3"}, canary=True),
    Mutant("extend-doers-before-enter", M, "Doist.extend", "        deeds = self.enter(doers=doers)  # provide fresh deeds for new doers\n        self.doers.extend(doers)\n", "        self.doers.extend(doers)\n        deeds = self.enter(doers=doers)  # provide fresh deeds for new doers\n", {"C06.R1"}),
    Mutant("enter-falsy-means-own", M, "DoDoer.enter", "        if doers is None:\n            doers = self.doers", "        if not doers:\n            doers = self.doers", {"C06.R1"}),
    Mutant("silent-loop-rewrite", M, "Doist.remove", "        for doer in rdoers:  # update .doers to remove rdoers\n            self.doers.remove(doer)",
           "        for gone in rdoers:\n            self.doers.remove(gone)", silent=True),
]
