"""C17 - chunked transfer coding decodes exactly and rejects invalid chunk sizes (DESIGN 2.C17)."""
from ..core import Mutant
from .. import httpparse as hp
from ..httpx import HT
from ..excs import Lattice
from ..index import dotted, walk_local
import ast

EXPLANATION = ("C17: every path to int(size, 16) in parseChunk passes a guard that restricts the size field to hexadecimal "
               "digits (recognised idioms: all/any over a hex constant, anchored hex regex, set inclusion); packChunk and "
               "parseChunk agree on radix 16, CRLF framing, exact size consumption, empty end line and trailers; the guard's "
               "exception class is one that Parsent.parseMessage turns into .errored.")
ASSUMPTIONS = ["decode equality over all bodies and chunkings is not decided"]


def check(run):
    ix = run.ix
    f = ix.func(HT, "parseChunk")
    facts, guard = hp.hex_guard_facts(run, f)
    for k, ok, site, what in facts:
        if not ok and guard and guard[0] == "unknown":
            run.inconclusive_at("C17.R1", site, what)
            continue
        run.ob("C17.R1", "%s:%s" % (f.fq, k), ok, site, what)
    run.floor("C17.R1", 1)
    for k, ok, site, what in hp.chunk_codec_facts(run):
        run.ob("C17.R2", "%s:%s" % (HT, k), ok, site, what)
    run.floor("C17.R2", 9)
    # R3 the guard's exception is reported through .errored
    pm = ix.func(HT, "Parsent.parseMessage")
    types = []
    for h in [n for n in walk_local(pm.node) if isinstance(n, ast.ExceptHandler)]:
        elts = h.type.elts if isinstance(h.type, ast.Tuple) else [h.type]
        types += [run.lat.canon(dotted(e)) for e in elts]
    kind = guard[1] if guard and guard[0] == "hex" else None
    ok = kind is not None and run.lat.catches(types, run.lat.canon(kind))[0] == "yes"
    run.ob("C17.R3", "%s:bad-size-reported-as-error" % HT, ok, run.site(pm),
           "" if ok else "an invalid chunk size raises %s, which Parsent.parseMessage (handlers %s) does not turn into .errored" % (kind, types))
    run.floor("C17.R3", 1)


MUTANTS = [
    Mutant("base-10", HT, "parseChunk", "size = int(size.strip().decode('ascii'), 16)", "size = int(size.strip().decode('ascii'), 10)", {"C17.R2"}, canary=True),
    Mutant("pack-decimal", HT, "packChunk", '"{0:x}\\r\\n".format(size)', '"{0:d}\\r\\n".format(size)', {"C17.R2"}, canary=True),
    Mutant("reintroduce-no-hex-guard", HT, "parseChunk", "    if not size or any(c not in b'0123456789abcdefABCDEF' for c in size):\n        raise HTTPException(\"Invalid chunk size '{0}'\".format(size.decode('iso-8859-1')))\n", "", {"C17.R1"}, canary=True),
    Mutant("guard-admits-sign", HT, "parseChunk", "b'0123456789abcdefABCDEF'", "b'0123456789abcdefABCDEF+-'", {"C17.R1"}),
    Mutant("guard-raises-uncaught", HT, "parseChunk", "raise HTTPException(\"Invalid chunk size", "raise KeyError(\"Invalid chunk size", {"C17.R3"}),
    Mutant("chunk-takes-size-plus-2", HT, "parseChunk", "        chunk = raw[:size]\n", "        chunk = raw[:size + 2]\n", {"C17.R2"}),
    Mutant("pack-no-trailing-crlf", HT, "packChunk", "    lines.append(b'\\r\\n')\n", "", {"C17.R2"}),
    Mutant("end-line-not-checked", HT, "parseChunk", "        if line:  # not empty so raise error", "        if False:", {"C17.R2"}),
    Mutant("silent-guard-all-hexdigits", HT, "parseChunk", "any(c not in b'0123456789abcdefABCDEF' for c in size)", "not all(c in b'0123456789ABCDEFabcdef' for c in size)", silent=True),
]
