"""C13 - HTTP message parsing does not depend on how bytes are fragmented (DESIGN 2.C13)."""
import ast

from ..core import Mutant
from .. import httpparse as hp
from ..httpx import HT, HS, HC
from ..astutil import method_call, unparse
from ..index import dotted, walk_local

EXPLANATION = ("C13: in every parser generator a consuming `del buf[:K]` is reached only after the completeness test for "
               "that extent on the same path; parseLine/parseLeader choose the cut by comparing positions of all admitted "
               "terminators (first listed wins ties) and handle a terminator that is a proper prefix of another at the "
               "end of the buffer; Parsent.makeParser closes the old generator before replacing it.")
ASSUMPTIONS = ["equality of parse results over all partitions is not decided; only the two structural preconditions",
               "the buffer is only appended to between resumptions (tcp receive discipline, C09)"]

PARSERS = [(HT, "parseLine", {"raw"}), (HT, "parseLeader", {"raw"}), (HT, "parseChunk", {"raw"}), (HT, "parseBom", {"raw"}),
           (HS, "Requestant.parseBody", {"self.msg"}), (HC, "Respondent.parseBody", {"self.msg"})]


def check(run):
    ix = run.ix
    for mod, q, bufs in PARSERS:
        f = ix.func(mod, q)
        facts = hp.consume_facts(run, f, bufs)
        for k, ok, site, what in facts:
            run.ob("C13.R1", "%s:%s" % (f.fq, k), ok, site, what)
        if not facts:
            run.ob("C13.R1", "%s:consumes-buffer" % f.fq, False, run.site(f), "parser no longer consumes its buffer")
    run.floor("C13.R1", 8)
    sites = {}
    for name in ("parseLine", "parseLeader"):
        f = ix.func(HT, name)
        for k, ok, site, what in hp.selector_facts(run, f):
            run.ob("C13.R2", "%s:%s" % (f.fq, k), ok, site, what)
        cs = hp.terminator_call_sites(run, name)
        sites[name] = cs
        for k, ok, site, what in hp.prefix_hazard_facts(run, f, cs):
            run.ob("C13.R2", "%s:%s" % (f.fq, k), ok, site, what)
    run.extra["terminator_call_sites"] = {n: [[f.fq, [repr(x) for x in t]] for f, c, t in cs] for n, cs in sites.items()}
    total = sum(len(v) for v in sites.values())
    run.ob("C13.R2", "%s:terminator-call-sites-evaluated" % HT, total >= 8, "", "" if total >= 8 else "only %d call sites of parseLine/parseLeader found" % total)
    run.floor("C13.R2", 7)
    # R3 makeParser closes the old generator
    mp = ix.func(HT, "Parsent.makeParser")
    store = [n for n in walk_local(mp.node) if isinstance(n, ast.Assign) and dotted(n.targets[0]) == "self.parser"]
    closes = [n for n in walk_local(mp.node) if isinstance(n, ast.Call) and method_call(n) == ("self.parser", "close")]
    ok = bool(store) and bool(closes) and closes[0].lineno < store[0].lineno
    run.ob("C13.R3", "%s:closes-old-parser-first" % mp.fq, ok, run.site(mp), "" if ok else "makeParser replaces self.parser without closing the previous generator")
    gen = isinstance(store[0].value, ast.Call) and dotted(store[0].value.func) == "self.parseMessage" if store else False
    run.ob("C13.R3", "%s:parser-is-parseMessage" % mp.fq, gen, run.site(mp), "" if gen else "self.parser is not self.parseMessage()")
    run.floor("C13.R3", 2)


MUTANTS = [
    Mutant("parseline-consume-before-test", HT, "parseLine", "        if index < 0:  # not found\n            if len(raw) > MAX_LINE_SIZE:", "        del raw[:index]\n        if index < 0:  # not found\n            if len(raw) > MAX_LINE_SIZE:", {"C13.R1"}, canary=True),
    Mutant("parsechunk-no-length-wait", HT, "parseChunk", "        while len(raw) < size:  # need more for chunk\n            (yield None)\n", "", {"C13.R1"}, canary=True),
    Mutant("parsebody-if-not-while", HS, "Requestant.parseBody", "            while len(self.msg) < self.length:", "            if len(self.msg) < self.length:", {"C13.R1"}),
    Mutant("parsebom-lt", HT, "parseBom", "if len(raw) >= size:  # enough bytes for bom", "if len(raw) >= size - 1:", {"C13.R1"}),
    Mutant("reintroduce-first-kind", HT, "parseLeader", "            if idx >= 0 and (index < 0 or idx < index):\n                index = idx\n                eol = sep\n", "            if idx >= 0:\n                index = idx\n                eol = sep\n                break\n", {"C13.R2"}, canary=True),
    Mutant("selector-nonstrict", HT, "parseLine", "idx < index):", "idx <= index):", {"C13.R2"}),
    Mutant("reintroduce-cr-split", HT, "parseLine", "            skip = True\n", "            skip = False\n", {"C13.R2"}),
    Mutant("makeparser-no-close", HT, "Parsent.makeParser", "        if self.parser:\n            self.parser.close()\n", "", {"C13.R3"}, canary=True),
    Mutant("silent-rename-index", HT, "parseBom", "size = len(bom)", "size = len(bom) + 0", silent=True),
]
