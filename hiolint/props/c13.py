"""C13 - HTTP message parsing does not depend on how bytes are fragmented (DESIGN 2.C13)."""
import ast

from ..core import Mutant
from .. import httpparse as hp
from ..httpx import HT, HS, HC
from ..astutil import method_call, unparse
from ..index import dotted, walk_local

EXPLANATION = ("C13: in every parser generator a consuming `del buf[:K]` is reached only after the completeness test for "
               "that extent on the same path; parseLine/parseLeader choose the cut by comparing positions of all admitted "
               "terminators (first listed wins ties) and handle a terminator that is a proper prefix of another at the "
               "end of the buffer; size limits that raise are applied to the buffer length only while no terminator was found, and to "
               "the found position afterwards; Parsent.makeParser closes the old generator before replacing it.")
ASSUMPTIONS = ["equality of parse results over all partitions is not decided; only the two structural preconditions",
               "the buffer is only appended to between resumptions (tcp receive discipline, C09)"]

PARSERS = [(HT, "parseLine", {"raw"}), (HT, "parseLeader", {"raw"}), (HT, "parseChunk", {"raw"}), (HT, "parseBom", {"raw"}),
           (HS, "Requestant.parseBody", {"self.msg"}), (HC, "Respondent.parseBody", {"self.msg"})]


def check(run):
    ix = run.ix
    for mod, q, bufs in PARSERS:
        f = ix.func(mod, q)
        facts = hp.consume_facts(run, f, bufs)
        for k, ok, site, what in facts:
            run.ob("C13.R1", "%s:%s" % (f.fq, k), ok, site, what)
        if not facts:
            run.ob("C13.R1", "%s:consumes-buffer" % f.fq, False, run.site(f), "parser no longer consumes its buffer")
        for k, ok, site, what in hp.take_consume_facts(run, f, bufs):
            run.ob("C13.R1", "%s:%s" % (f.fq, k), ok, site, what)
    run.floor("C13.R1", 14)
    # R4 stateful sub-parsers survive waits
    n4 = 0
    for mod, q in ((HT, "parseChunk"), (HS, "Requestant.parseHead"), (HS, "Requestant.parseBody"), (HC, "Respondent.parseHead"),
                   (HC, "Respondent.parseBody"), (HT, "Parsent.parseMessage"), (HT, "EventSource.parseEvents")):
        f = ix.func(mod, q)
        for k, ok, site, what in hp.subparser_facts(run, f):
            run.ob("C13.R4", "%s:%s" % (f.fq, k), ok, site, what)
    run.floor("C13.R4", 10)
    sites = {}
    for name in ("parseLine", "parseLeader"):
        f = ix.func(HT, name)
        for k, ok, site, what in hp.selector_facts(run, f):
            run.ob("C13.R2", "%s:%s" % (f.fq, k), ok, site, what)
        cs = hp.terminator_call_sites(run, name)
        sites[name] = cs
        for k, ok, site, what in hp.prefix_hazard_facts(run, f, cs):
            run.ob("C13.R2", "%s:%s" % (f.fq, k), ok, site, what)
    run.extra["terminator_call_sites"] = {n: [[f.fq, [repr(x) for x in t]] for f, c, t in cs] for n, cs in sites.items()}
    # only the server-sent-event line parser admits a bare CR; HTTP framing lines end in CRLF (LF tolerated)
    for name, cs in sites.items():
        for sf, call, tup in cs:
            sse = sf.qualname.startswith("EventSource.")
            has_cr = b"\r" in tup
            ok = has_cr == sse if sse else not has_cr
            run.ob("C13.R2", "%s:eols-at:%s:%s" % (sf.fq, name, call.keywords[-1].value.value if call.keywords and isinstance(call.keywords[-1].value, ast.Constant) else "default"),
                   ok, run.site(sf, call),
                   "" if ok else "%s calls %s with terminators %s: a bare CR is a line end only in event streams; an HTTP start/header/chunk line "
                   "split between CR and LF is cut at the CR and the stray LF is taken for an empty line (end of headers)" % (sf.qualname, name, [repr(t) for t in tup]))
    total = sum(len(v) for v in sites.values())
    run.ob("C13.R2", "%s:terminator-call-sites-evaluated" % HT, total >= 8, "", "" if total >= 8 else "only %d call sites of parseLine/parseLeader found" % total)
    run.floor("C13.R2", 16)
    # R5 limits are applied to the token, not to the rest of the buffer
    for name in ("parseLine", "parseLeader"):
        f = ix.func(HT, name)
        for k, ok, site, what in hp.limit_facts(run, f, {"raw"}):
            run.ob("C13.R5", "%s:%s" % (f.fq, k), ok, site, what)
    run.floor("C13.R5", 2)
    # R3 makeParser closes the old generator
    mp = ix.func(HT, "Parsent.makeParser")
    store = [n for n in walk_local(mp.node) if isinstance(n, ast.Assign) and dotted(n.targets[0]) == "self.parser"]
    closes = [n for n in walk_local(mp.node) if isinstance(n, ast.Call) and method_call(n) == ("self.parser", "close")]
    ok = bool(store) and bool(closes) and closes[0].lineno < store[0].lineno
    run.ob("C13.R3", "%s:closes-old-parser-first" % mp.fq, ok, run.site(mp), "" if ok else "makeParser replaces self.parser without closing the previous generator")
    gen = isinstance(store[0].value, ast.Call) and dotted(store[0].value.func) == "self.parseMessage" if store else False
    run.ob("C13.R3", "%s:parser-is-parseMessage" % mp.fq, gen, run.site(mp), "" if gen else "self.parser is not self.parseMessage()")
    run.floor("C13.R3", 2)


MUTANTS = [
    Mutant("found-limit-on-buffer-length", HT, "parseLeader", "        if index > MAX_LINE_SIZE:  # found but line too long", "        if len(raw) > MAX_LINE_SIZE:  # found but line too long", {"C13.R5"}, canary=True),
    Mutant("found-limit-on-buffer-length-line", HT, "parseLine", "        if index > MAX_LINE_SIZE:  # found but line too long", "        if len(raw) > MAX_LINE_SIZE:  # found but line too long", {"C13.R5"}),
    Mutant("parseline-consume-before-test", HT, "parseLine", "        if index < 0:  # not found\n            if len(raw) > MAX_LINE_SIZE:", "        del raw[:index]\n        if index < 0:  # not found\n            if len(raw) > MAX_LINE_SIZE:", {"C13.R1"}, canary=True),
    Mutant("parsechunk-no-length-wait", HT, "parseChunk", "        while len(raw) < size:  # need more for chunk\n            (yield None)\n", "", {"C13.R1"}, canary=True),
    Mutant("parsebody-if-not-while", HS, "Requestant.parseBody", "            while len(self.msg) < self.length:", "            if len(self.msg) < self.length:", {"C13.R1"}),
    Mutant("parsebom-lt", HT, "parseBom", "if len(raw) >= size:  # enough bytes for bom", "if len(raw) >= size - 1:", {"C13.R1"}),
    Mutant("reintroduce-first-kind", HT, "parseLeader", "            if idx >= 0 and (index < 0 or idx < index):\n                index = idx\n                eol = sep\n", "            if idx >= 0:\n                index = idx\n                eol = sep\n                break\n", {"C13.R2"}, canary=True),
    Mutant("selector-nonstrict", HT, "parseLine", "idx < index):", "idx <= index):", {"C13.R2"}),
    Mutant("reintroduce-cr-split", HT, "parseLine", "            skip = True\n", "            skip = False\n", {"C13.R2"}),
    Mutant("makeparser-no-close", HT, "Parsent.makeParser", "        if self.parser:\n            self.parser.close()\n", "", {"C13.R3"}, canary=True),
    Mutant("contentlength-consume-all", HC, "Respondent.parseBody", "            del self.msg[:self.length]\n", "            del self.msg[:]\n", {"C13.R1"}),
    Mutant("trailer-parser-recreated", HT, "parseChunk", "        leaderParser = parseLeader(raw=raw,\n                                   eols=(CRLF, LF),\n                                   kind=\"trailer header line\")\n        while True:\n            headers = next(leaderParser)",
           "        while True:\n            leaderParser = parseLeader(raw=raw,\n                                   eols=(CRLF, LF),\n                                   kind=\"trailer header line\")\n            headers = next(leaderParser)", {"C13.R4"}),
    Mutant("request-line-default-eols", HS, "Requestant.parseHead", "lineParser = httping.parseLine(raw=self.msg, eols=(CRLF, LF), kind=\"status line\")", "lineParser = httping.parseLine(raw=self.msg, kind=\"request line\")", {"C13.R2"}),
    Mutant("silent-rename-index", HT, "parseBom", "size = len(bom)", "size = len(bom) + 0", silent=True),
]
