"""C09 - TCP/TLS byte streams are delivered exactly, in order, under partial I/O (DESIGN 2.C09)."""
from ..core import Mutant, norm
from .. import tcp
from ..astutil import keytext

EXPLANATION = ("C09: for Client, ClientTls, Remoter, RemoterTls: serviceSends only deletes the prefix [:count] that "
               "send(txbs) reported in the same iteration; send returns the kernel's count or 0; tx only extends; every "
               "non-empty receive() result reaches rxbs.extend exactly once; receive returns what recv returned; the wire "
               "log gets data[:count] / the full received data on the non-empty path; only tx/serviceSends/"
               "serviceReceive*/clearRxbs write the buffers inside the tcp package.")
ASSUMPTIONS = ["kernel and TLS library behaviour are not decided", "callers outside hio.core.tcp that touch txbs/rxbs directly are out of scope of R4"]
ALLOWED = {"__init__", "tx", "serviceSends", "serviceReceives", "serviceReceiveOnce", "clearRxbs"}


def check(run):
    ix = run.ix
    for mod, name in tcp.SIBLINGS:
        cls = ix.cls(mod, name)
        for fname, ok, site, what in tcp.send_discipline_facts(run, cls):
            run.ob("C09.R1", "%s:%s:%s" % (mod, name, fname), ok, site, what)
        for fact in tcp.receive_discipline_facts(run, cls):
            fname, ok, site, what = fact[:4]
            run.ob("C09.R2", "%s:%s:%s" % (mod, name, fname), ok, site, what, fact[4] if len(fact) > 4 else None)
        for fname, ok, site, what in tcp.wirelog_facts(run, cls):
            run.ob("C09.R3", "%s:%s:%s" % (mod, name, fname), ok, site, what)
    # R3b the wire log writes the data it is given to the log of the right direction
    import ast as _ast
    from ..astutil import method_call as _mc, unparse as _un
    from ..index import walk_local as _wl, dotted as _dot
    wlog = ix.cls("hio.core.wiring", "WireLog")
    for meth, log, label in (("writeRx", "self.rxl", b"Rx"), ("writeTx", "self.txl", b"Tx")):
        f = ix.method(wlog, meth)
        writes = [n for n in _wl(f.node) if isinstance(n, _ast.Call) and _mc(n) and _mc(n)[1] == "write"]
        ok = len(writes) == 1 and _mc(writes[0])[0] == log
        d = None
        if ok:
            for x in _ast.walk(writes[0]):
                if isinstance(x, _ast.Dict):
                    d = {k.value: v for k, v in zip(x.keys, x.values) if isinstance(k, _ast.Constant)}
            ok = d is not None and _dot(d.get(b"data")) == f.params()[0][1] and getattr(d.get(b"dx"), "value", None) == label
        slices = [n for n in _wl(f.node) if isinstance(n, _ast.Subscript) and _dot(n.value) == f.params()[0][1]]
        ok = ok and not slices
        run.ob("C09.R3", "%s:writes-given-data-to-%s" % (f.fq, log.split(".")[1]), ok, run.site(f),
               "" if ok else "WireLog.%s must write exactly the data it is given, labelled %r, to %s (found %s)" % (meth, label, log, [_un(w) for w in writes]))
    # R4 who-may-write in the tcp package
    n = 0
    for modname in (tcp.CM, tcp.SM):
        for fq, f in sorted(ix.functions.items()):
            if f.module.name != modname or fq.endswith("@setter"):
                continue
            for attr in ("txbs", "rxbs"):
                for kind, node in tcp.buffer_mutations(f, attr):
                    ok = f.name in ALLOWED
                    run.ob("C09.R4", "%s:writes-%s:%s" % (f.fq, attr, keytext(f, node)), ok, run.site(f, node),
                           "" if ok else "%s is written outside tx/serviceSends/serviceReceive*/clearRxbs: `%s`" % (attr, norm(node)))
                    n += 1
    run.floor("C09.R1", 12)
    run.floor("C09.R2", 20)
    run.floor("C09.R3", 10)
    run.floor("C09.R4", 14)


C, S = tcp.CM, tcp.SM
MUTANTS = [
    Mutant("client-del-all", C, "Client.serviceSends", "del self.txbs[:count]", "del self.txbs[:]", {"C09.R1"}, canary=True),
    Mutant("remoter-off-by-one", S, "Remoter.serviceSends", "del self.txbs[:count]", "del self.txbs[:count + 1]", {"C09.R1"}),
    Mutant("remoter-send-len-on-block", S, "Remoter.send", "                count = 0  # blocked try again", "                count = len(data)  # blocked try again", {"C09.R1"}, canary=True),
    Mutant("clienttls-send-len", C, "ClientTls.send", "        return result", "        return len(data)", {"C09.R1"}),
    Mutant("client-tx-replace", C, "Client.tx", "self.txbs.extend(data)", "self.txbs = bytearray(data)", {"C09.R1", "C09.R4"}),
    Mutant("remoter-rx-replace", S, "Remoter.serviceReceives", "self.rxbs.extend(data)", "self.rxbs = bytearray(data)", {"C09.R2"}, canary=True),
    Mutant("client-rx-twice", C, "Client.serviceReceiveOnce", "                self.rxbs.extend(data)", "                self.rxbs.extend(data); self.rxbs.extend(data)", {"C09.R2"}),
    Mutant("client-rx-drop-before-break", C, "Client.serviceReceives", "            if not data:\n                break\n            self.rxbs.extend(data)", "            self.rxbs.extend(data[:-1])\n            if not data:\n                break", {"C09.R2"}),
    Mutant("remotertls-receive-slice", S, "RemoterTls.receive", "        return data", "        return data[:self.bs - 1]", {"C09.R2"}),
    Mutant("client-log-all-data", C, "Client.send", "self.wl.writeTx(data[:count], self.ha)", "self.wl.writeTx(data, self.ha)", {"C09.R3"}, canary=True),
    Mutant("remoter-log-rx-unguarded", S, "Remoter.receive", "            if self.wl:  # log over the wire rx\n                self.wl.writeRx(data, self.ca)\n", "", {"C09.R3"}),
    Mutant("wirelog-tx-to-rx-log", "hio.core.wiring", "WireLog.writeTx", "self.txl.write(self.fmt % {b'dx': b'Tx'", "self.rxl.write(self.fmt % {b'dx': b'Tx'", {"C09.R3"}),
    Mutant("wirelog-truncates", "hio.core.wiring", "WireLog.writeRx", "b'data': data})", "b'data': data[:64]})", {"C09.R3"}),
    Mutant("server-writes-txbs", S, "Server.transmitIx", "self.ixes[ca].tx(data)", "self.ixes[ca].txbs[:] = data", {"C09.R4"}),
    Mutant("silent-slice-zero", C, "Client.serviceSends", "            count = self.send(self.txbs)\n            del self.txbs[:count]", "            n = self.send(self.txbs)\n            del self.txbs[0:n]", silent=True),
]
