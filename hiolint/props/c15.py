"""C15 - server-sent events are delivered exactly regardless of line endings and splits (DESIGN 2.C15)."""
import ast
import re

from ..core import Mutant, norm
from .. import httpparse as hp
from ..httpx import HT, HC
from ..astutil import method_call, unparse, parent, in_subtree, oriented
from ..index import dotted, walk_local

EXPLANATION = ("C15: the event line parser is called with (CRLF, LF, CR) and inherits the position-based terminator "
               "selection and the prefix-terminator handling of parseLine; the field dispatch handles exactly event, data, "
               "id, retry (comments skipped, one leading space stripped, retry through a guarded int), dispatches on an "
               "empty line only when data is non-empty and appends events at the right end; both evented branches of "
               "Respondent.parseBody (chunked / close-delimited) call eventSource.parse() and propagate retry and leid.")
ASSUMPTIONS = ["event equality over all streams is not decided"]
FIELDS = {"event", "data", "id", "retry"}


def check(run):
    ix = run.ix
    pe = ix.func(HT, "EventSource.parseEvents")
    pl = ix.func(HT, "parseLine")
    # R1 terminator hazard at the SSE call site
    sites = [s for s in hp.terminator_call_sites(run, "parseLine") if s[0] is pe]
    ok = len(sites) == 1 and set(sites[0][2]) == {b"\r\n", b"\n", b"\r"} and sites[0][2][0] == b"\r\n"
    run.ob("C15.R1", "%s:eols-crlf-lf-cr" % pe.fq, ok, run.site(pe, sites[0][1]) if sites else run.site(pe),
           "" if ok else "event lines are split on %s; SSE admits CRLF, LF and CR with CRLF listed first" % ([t for f, c, t in sites],))
    for k, okx, site, what in hp.selector_facts(run, pl):
        run.ob("C15.R1", "%s:%s" % (pl.fq, k), okx, site, what)
    for k, okx, site, what in hp.prefix_hazard_facts(run, pl, sites):
        run.ob("C15.R1", "%s:%s" % (pl.fq, k), okx, site, what)
    run.floor("C15.R1", 4)

    # R2 field table.  Local roles are derived from the code, never from their spelling:
    #   field/value = 1st/3rd target of `<f>, <sep>, <v> = <line>.partition(b':')`;
    #   id/name/data variables = the values of the ('id'|'name'|'data', <var>) pairs of the dispatched dict;
    #   parts = the list local joined into the data variable.
    part = [n for n in walk_local(pe.node) if isinstance(n, ast.Assign) and isinstance(n.targets[0], ast.Tuple) and len(n.targets[0].elts) == 3
            and isinstance(n.value, ast.Call) and isinstance(n.value.func, ast.Attribute) and n.value.func.attr == "partition"
            and n.value.args and isinstance(n.value.args[0], ast.Constant) and n.value.args[0].value == b":"]
    if len(part) != 1:
        run.inconclusive_at("C15.R2", run.site(pe), "`field, sep, value = line.partition(b':')` idiom not found in parseEvents")
        return
    fieldv, sepv, valuev = (dotted(t) for t in part[0].targets[0].elts)
    app = [n for n in walk_local(pe.node) if isinstance(n, ast.Call) and dotted(n.func.value if isinstance(n.func, ast.Attribute) else None) == "self.events"]
    keys = {}
    for n in ast.walk(app[0]) if app else []:
        if isinstance(n, ast.Tuple) and len(n.elts) == 2 and isinstance(n.elts[0], ast.Constant):
            keys[n.elts[0].value] = dotted(n.elts[1])
        if isinstance(n, ast.Dict):
            for k, v in zip(n.keys, n.values):
                if isinstance(k, ast.Constant):
                    keys[k.value] = dotted(v)
        if isinstance(n, ast.Call) and dotted(n.func) == "dict":
            for k in n.keywords:
                keys[k.arg] = dotted(k.value)
    okk = set(keys) == {"id", "name", "data"} and all(keys.values()) and len(set(keys.values())) == 3
    run.ob("C15.R2", "%s:event-carries-id-name-data" % pe.fq, okk, run.site(pe), "" if okk else "dispatched event is built from %s" % sorted(keys.items()))
    idv, namev, datav = keys.get("id"), keys.get("name"), keys.get("data")
    joined = {dotted(n.value.args[0]) for n in walk_local(pe.node) if isinstance(n, ast.Assign) and dotted(n.targets[0]) == datav
              and isinstance(n.value, ast.Call) and isinstance(n.value.func, ast.Attribute) and n.value.func.attr == "join"
              and isinstance(n.value.func.value, ast.Constant) and n.value.func.value.value == "\n" and n.value.args}
    joined.discard(None)
    ok = len(joined) == 1
    run.ob("C15.R2", "%s:data-is-newline-join-of-parts" % pe.fq, ok, run.site(pe),
           "" if ok else "the dispatched data (`%s`) is not the '\\n'-join of one list of data lines (joined: %s)" % (datav, sorted(joined)))
    partsv = sorted(joined)[0] if joined else None
    arms = {}
    for n in walk_local(pe.node):
        o = oriented(n, lambda e: dotted(e) == fieldv) if isinstance(n, ast.Compare) else None
        if o and o[1] == "Eq" and isinstance(o[2], ast.Constant):
            arms[o[2].value] = parent(n)
    run.ob("C15.R2", "%s:field-table" % pe.fq, set(arms) == FIELDS, run.site(pe),
           "" if set(arms) == FIELDS else "field dispatch handles %s, the event stream format defines %s" % (sorted(arms), sorted(FIELDS)))
    run.rows += len(arms)
    effects = {"event": lambda st: isinstance(st, ast.Assign) and {dotted(t) for t in st.targets} == {namev} and dotted(st.value) == valuev,
               "data": lambda st: isinstance(st, ast.Expr) and isinstance(st.value, ast.Call) and method_call(st.value) == (partsv, "append")
               and len(st.value.args) == 1 and dotted(st.value.args[0]) == valuev,
               "id": lambda st: isinstance(st, ast.Assign) and {dotted(t) for t in st.targets} == {"self.leid", idv} and dotted(st.value) == valuev,
               "retry": lambda st: isinstance(st, ast.Try)}
    for name, node in sorted(arms.items()):
        body = node.body if isinstance(node, ast.If) else []
        ok = name in effects and any(effects[name](st) for st in body)
        run.ob("C15.R2", "%s:arm:%s" % (pe.fq, name), ok, run.site(pe, node),
               "" if ok else "the `%s` arm does not have its effect (%s)" % (name, [unparse(s) for s in body][:2]))
    # retry guarded int
    rt = arms.get("retry")
    ok = False
    if isinstance(rt, ast.If):
        for st in rt.body:
            if isinstance(st, ast.Try):
                conv = any(isinstance(c, ast.Call) and dotted(c.func) == "int" for b in st.body for c in ast.walk(b))
                handler = any(dotted(h.type) == "ValueError" for h in st.handlers)
                setr = any(isinstance(c, ast.Assign) and dotted(c.targets[0]) == "self.retry" for b in st.orelse for c in ast.walk(b))
                ok = conv and handler and setr
    run.ob("C15.R2", "%s:retry-guarded-int" % pe.fq, ok, run.site(pe, rt) if rt else run.site(pe),
           "" if ok else "retry must be converted with int() under `except ValueError` and stored only on success")
    # comments skipped, one leading space stripped
    comment = any(isinstance(n, ast.If) and isinstance(n.test, ast.UnaryOp) and dotted(n.test.operand) == fieldv
                  and any(isinstance(b, ast.Continue) for b in n.body) for n in walk_local(pe.node))
    run.ob("C15.R2", "%s:comment-lines-skipped" % pe.fq, comment, run.site(pe), "" if comment else "lines starting with ':' are not skipped")
    strip = False
    for n in walk_local(pe.node):
        if isinstance(n, ast.If) and any(isinstance(c, ast.Compare) and isinstance(c.comparators[0], ast.Constant) and c.comparators[0].value == b" "
                                         for c in ast.walk(n.test)):
            dels = [d for d in ast.walk(n) if isinstance(d, ast.Delete)]
            strip = len(dels) == 1 and unparse(dels[0].targets[0]) in tuple(valuev + x for x in ("[0]", "[:1]", "[0:1]"))
    run.ob("C15.R2", "%s:one-leading-space-stripped" % pe.fq, strip, run.site(pe), "" if strip else "exactly one leading space of the value must be stripped")
    # dispatch on empty line only with data; append right
    ok = len(app) == 1 and app[0].func.attr == "append"
    guard = False
    if app:
        p = parent(app[0])
        while p is not None and p is not pe.node:
            if isinstance(p, ast.If) and dotted(p.test) == datav:
                guard = True
            p = parent(p)
    run.ob("C15.R2", "%s:dispatch-appends-right-when-data" % pe.fq, ok and guard, run.site(pe, app[0]) if app else run.site(pe),
           "" if ok and guard else "events must be appended (right end) to self.events only when the data buffer is non-empty")
    # per-event buffers are cleared at the end of every block (blank line), dispatched or not: the name, data and data-line
    # buffers are re-bound to empty values as direct statements of the blank-line block, before its `continue`
    blank = [n for n in walk_local(pe.node) if isinstance(n, ast.If) and any(c is app[0] for st in n.body for c in ast.walk(st))] if app else []
    resets = set()
    if blank:
        outer = sorted(blank, key=lambda n: n.lineno)[0]
        for st in outer.body:
            if isinstance(st, ast.Continue):
                break
            if isinstance(st, ast.Assign) and (isinstance(st.value, ast.Constant) and not st.value.value
                                               or isinstance(st.value, (ast.List, ast.Tuple)) and not st.value.elts):
                resets |= {dotted(t) for t in st.targets}
    need = {namev, datav, partsv}
    ok = bool(blank) and need <= resets
    run.ob("C15.R2", "%s:buffers-reset-after-every-block" % pe.fq, ok, run.site(pe, blank[0]) if blank else run.site(pe),
           "" if ok else "after a blank line the event name, data and data-line buffers (%s) must be cleared whether or not an event was dispatched; "
           "cleared unconditionally: %s" % (sorted(x for x in need if x), sorted(x for x in resets if x)))
    ok = idv not in resets
    run.ob("C15.R2", "%s:last-event-id-persists" % pe.fq, ok, run.site(pe), "" if ok else "the last event id buffer is reset between events; it must persist until a new id field")
    run.floor("C15.R2", 13)

    # R3 branch agreement
    pb = ix.func(HC, "Respondent.parseBody")
    blocks = [n for n in walk_local(pb.node) if isinstance(n, ast.If) and dotted(n.test) == "self.evented"]
    run.ob("C15.R3", "%s:two-evented-branches" % pb.fq, len(blocks) == 2, run.site(pb),
           "" if len(blocks) == 2 else "expected an evented block in the chunked and in the close-delimited branch, found %d" % len(blocks))
    for i, b in enumerate(sorted(blocks, key=lambda n: n.lineno)):
        calls = any(isinstance(c, ast.Call) and method_call(c) == ("self.eventSource", "parse") for c in ast.walk(b))
        stores = {dotted(t) for c in ast.walk(b) if isinstance(c, ast.Assign) for t in c.targets}
        ok = calls and {"self.retry", "self.leid"} <= stores
        run.ob("C15.R3", "%s:evented-branch-%d" % (pb.fq, i), ok, run.site(pb, b),
               "" if ok else "evented branch %d: parse() called=%s, propagates %s (needs retry and leid)" % (i, calls, sorted(stores)))
    if len(blocks) == 2:
        a, b = (re.sub(r"__i\d*\b", "", unparse(x)) for x in sorted(blocks, key=lambda n: n.lineno))     # expansion temporaries are numbered per site
        run.ob("C15.R3", "%s:evented-branches-agree" % pb.fq, a == b, run.site(pb, blocks[1]),
               "" if a == b else "the chunked and the close-delimited evented branches of parseBody differ:\n%s\n-- vs --\n%s" % (a, b))
    run.floor("C15.R3", 4)


MUTANTS = [
    Mutant("drop-id-arm", HT, "EventSource.parseEvents", "            elif field == u'id':\n                self.leid = eid = value\n", "", {"C15.R2"}, canary=True),
    Mutant("appendleft", HT, "EventSource.parseEvents", "self.events.append(dict(", "self.events.appendleft(dict(", {"C15.R2"}, canary=True),
    Mutant("dispatch-empty-data", HT, "EventSource.parseEvents", "                if edata:  # data so dispatch event by appending to .events", "                if True:", {"C15.R2"}),
    Mutant("strip-all-spaces", HT, "EventSource.parseEvents", "            if value and value[0:1] == b' ':\n                del value[0]", "            value = value.lstrip()", {"C15.R2"}),
    Mutant("retry-unguarded", HT, "EventSource.parseEvents", "                try:\n                    value = int(value)\n                except ValueError as ex:\n                    pass  # ignore\n                else:\n                    self.retry = value", "                self.retry = int(value)", {"C15.R2"}),
    Mutant("drop-parse-in-chunked-branch", HC, "Respondent.parseBody", "                    if self.evented:\n                        self.eventSource.parse()  # parse events here\n", "                    if self.evented:\n", {"C15.R3"}, canary=True),
    Mutant("eols-without-cr", HT, "EventSource.parseEvents", "eols=(CRLF, LF, CR )", "eols=(CRLF, LF)", {"C15.R1"}),
    Mutant("eols-cr-first", HT, "EventSource.parseEvents", "eols=(CRLF, LF, CR )", "eols=(CR, LF, CRLF)", {"C15.R1"}),
    Mutant("silent-arms-reordered", HT, "EventSource.parseEvents", "            if field == u'event':\n                ename = value\n            elif field == u'data':\n                parts.append(value)\n",
           "            if field == u'data':\n                parts.append(value)\n            elif field == u'event':\n                ename = value\n", silent=True),
]
