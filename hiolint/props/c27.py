"""C27 - name/address registry stays a one-to-one bijection (DESIGN 2.C27)."""
import ast

from ..core import Mutant, norm
from ..absint import Domain, Interp, NORMAL, RETURN, RAISE, is_raise
from ..astutil import unparse, keytext
from ..index import dotted, walk_local

EXPLANATION = ("C27: paired-write typestate over every path of the four Namer mutators: a path that returns False or raises has "
               "written neither map; a path that returns True has written both; paired stores are crossed (A[n]=a with B[a]=n); "
               "a key deleted from one map is the value read from the other map before it was overwritten or compared equal to "
               "it; every insertion of a new key is dominated by the conflict test (`key in map`) on that map.")
ASSUMPTIONS = ["the inductive argument over operation histories is not decided (one step preserves the pairing shape)"]
NM = "hio.help.naming"
A, B = "self._addrByName", "self._nameByAddr"
OTHER = {A: B, B: A}


class NamerDomain(Domain):
    """state = (facts frozenset, writes tuple, retval)"""

    def initial(self):
        return (frozenset(), (), None)

    def _sub(self, e):
        if isinstance(e, ast.Subscript) and dotted(e.value) in (A, B):
            return dotted(e.value), unparse(e.slice)
        return None

    def on_store(self, target, value, state, stmt):
        facts, writes, rv = state
        s = self._sub(target)
        if s is not None:
            m, k = s
            v = unparse(value) if isinstance(value, ast.AST) else "?"
            facts = frozenset((("eqold",) + f[1:]) if (f[0] == "eq" and f[2:] == (m, k)) else f for f in facts)
            return (facts, writes + (("store", m, k, v),), rv)
        if isinstance(target, ast.Name) and isinstance(value, ast.AST):
            s = self._sub(value)
            facts = frozenset(f for f in facts if not (f[0] in ("eq", "eqold") and f[1] == target.id))
            if s is not None:
                facts = facts | {("eq", target.id, s[0], s[1])}
            return (facts, writes, rv)
        return state

    def on_delete(self, target, state, stmt):
        facts, writes, rv = state
        s = self._sub(target)
        if s is not None:
            return (facts, writes + (("del", s[0], s[1], None),), rv)
        return state

    def on_return(self, stmt, state):
        v = stmt.value.value if isinstance(stmt.value, ast.Constant) else "?"
        return (state[0], state[1], v)

    def assume(self, test, truth, state):
        facts, writes, rv = state
        t, neg = test, False
        while isinstance(t, ast.UnaryOp) and isinstance(t.op, ast.Not):
            t, neg = t.operand, not neg
        val = truth != neg
        if isinstance(t, ast.Compare) and len(t.ops) == 1:
            l, r, op = t.left, t.comparators[0], t.ops[0]
            if isinstance(op, (ast.In, ast.NotIn)) and dotted(r) in (A, B):
                present = val == isinstance(op, ast.In)
                return (facts | {("present" if present else "absent", dotted(r), unparse(l))}, writes, rv)
            if isinstance(op, (ast.Eq, ast.NotEq)):
                equal = val == isinstance(op, ast.Eq)
                for x, y in ((l, r), (r, l)):
                    s = self._sub(y)
                    if s is not None and isinstance(x, ast.Name) and equal:
                        return (facts | {("eq", x.id, s[0], s[1])}, writes, rv)
        return state


def verdict(facts, writes, rv, oc):
    if is_raise(oc) or rv is False:
        if writes:
            return "a path that %s has already written %s: a rejected / no-change operation leaves the maps altered" % (
                "raises" if is_raise(oc) else "returns False", [w[:3] for w in writes])
        return None
    if rv is not True:
        return None if not writes else "path returns %r after writing %s" % (rv, [w[:3] for w in writes])
    maps = {w[1] for w in writes}
    if maps != {A, B}:
        return "a path that returns True wrote only %s: the two maps are no longer inverses" % sorted(m.split(".")[-1] for m in maps)
    for op, m, k, v in writes:
        if op == "store":
            if not any(o == "store" and m2 == OTHER[m] and k2 == v and v2 == k for o, m2, k2, v2 in writes):
                return "store %s[%s] = %s has no crossed store %s[%s] = %s on the same path" % (m.split(".")[-1], k, v, OTHER[m].split(".")[-1], v, k)
            if ("present", m, k) in facts:
                # overwriting an existing entry: its old inverse entry must be deleted, keyed by the value read before the overwrite
                if not any(o == "del" and m2 == OTHER[m] and any(f[0] == "eqold" and f[1] == k2 and f[2:] == (m, k) for f in facts)
                           for o, m2, k2, v2 in writes):
                    return ("store %s[%s] = %s overwrites an existing entry but the old inverse entry %s[<old %s>] is not deleted (with a key read "
                            "before the overwrite): two %s now map to the same entry" % (m.split(".")[-1], k, v, OTHER[m].split(".")[-1], k, "addresses/names"))
            if ("present", m, k) not in facts and ("absent", m, k) not in facts:
                return "store %s[%s] = %s is not dominated by the conflict test `%s in %s`" % (m.split(".")[-1], k, v, k, m.split(".")[-1])
        else:
            o = OTHER[m]
            keys_other = [k2 for op2, m2, k2, v2 in writes if m2 == o]
            stored_other = {k2 for op2, m2, k2, v2 in writes if m2 == o and op2 == "store"}
            ok = any(f[0] in (("eqold",) if (f[2] == o and f[3] in stored_other) else ("eq", "eqold")) and ((f[1] == k and f[2] == o and f[3] in keys_other) or
                                                  (f[2] == m and f[3] == k and f[1] in keys_other)) for f in facts)
            if not ok:
                return "del %s[%s]: the deleted key is not tied to the entry touched in %s (keys %s) by a lookup or an equality test made before the update" % (
                    m.split(".")[-1], k, o.split(".")[-1], keys_other)
    return None


def check(run):
    ix = run.ix
    cls = ix.cls(NM, "Namer")
    nwrites = 0
    for meth in ("addNameAddr", "remNameAddr", "changeAddrAtName", "changeNameAtAddr"):
        f = ix.method(cls, meth)
        res = Interp(NamerDomain(), run.lat).run(f.node)
        run.paths += len(res)
        seen_true = False
        classes = {}
        for (st, oc), tr in sorted(res.items(), key=lambda kv: str(kv[0])):
            facts, writes, rv = st
            bad = verdict(facts, writes, rv, oc)
            seen_true = seen_true or (rv is True and not is_raise(oc))
            nwrites += len(writes) if rv is True else 0
            label = "%s|writes=%s" % ("raise" if is_raise(oc) else "return %s" % rv, ",".join("%s:%s[%s]" % (w[0], w[1].split("._")[-1], keytext(f, w[2])) for w in writes) or "none")
            if label not in classes or bad:
                classes[label] = (bad, tr)
        for label, (bad, tr) in sorted(classes.items()):
            run.ob("C27.R1", "%s:%s" % (f.fq, label), bad is None, run.site(f), bad or "", tr)
        run.ob("C27.R1", "%s:has-success-path" % f.fq, seen_true, run.site(f), "" if seen_true else "no path returns True")
    run.floor("C27.R1", 12)
    # who-may-write: the maps are written only by the mutators, __init__ and clearAllNameAddr
    for name, f in sorted(cls.methods.items()):
        for n in walk_local(f.node):
            hit = None
            if isinstance(n, (ast.Assign, ast.Delete)):
                for t in (n.targets if isinstance(n, (ast.Assign, ast.Delete)) else []):
                    base = t.value if isinstance(t, ast.Subscript) else t
                    if dotted(base) in (A, B):
                        hit = n
            if hit is not None and ix.expanded_helper(f):
                continue        # a new helper: its body was expanded into (and is judged at) its callers
            if hit is not None:
                ok = name in ("__init__", "clearAllNameAddr", "addNameAddr", "remNameAddr", "changeAddrAtName", "changeNameAtAddr")
                run.ob("C27.R2", "%s:writes-maps:%s" % (f.fq, keytext(f, hit)), ok, run.site(f, hit), "" if ok else "the registry maps are written outside the mutators")
    clr = ix.method(cls, "clearAllNameAddr")
    both = {dotted(t) for n in walk_local(clr.node) if isinstance(n, ast.Assign) for t in n.targets}
    run.ob("C27.R2", "%s:clears-both" % clr.fq, both >= {A, B}, run.site(clr), "" if both >= {A, B} else "clearAllNameAddr resets only %s" % sorted(both))
    run.floor("C27.R2", 13)
    # R3 the two maps are distinct objects: a whole-map assignment gives each map its own fresh container
    for name, f in sorted(cls.methods.items()):
        byname = {}
        for n in walk_local(f.node):
            if not isinstance(n, ast.Assign):
                continue
            tg = [dotted(t) for t in n.targets]
            mine = [t for t in tg if t in (A, B)]
            if not mine:
                continue
            bad = None
            if A in tg and B in tg:
                bad = "one chained assignment binds both maps to the same object: every later write lands in both maps"
            elif dotted(n.value) in (A, B):
                bad = "%s is bound to the other map itself" % mine[0].split(".")[-1]
            elif isinstance(n.value, ast.Name):
                prev = byname.get(n.value.id)
                if prev is not None and prev != mine[0]:
                    bad = "both maps are bound to the same local `%s`" % n.value.id
                byname[n.value.id] = mine[0]
            run.ob("C27.R3", "%s:own-container:%s" % (f.fq, keytext(f, n)), bad is None, run.site(f, n), bad or "")
    run.floor("C27.R3", 4)


MUTANTS = [
    Mutant("rem-one-map-only", NM, "Namer.remNameAddr", "            del self._addrByName[name]\n            del self._nameByAddr[addr]\n            return True\n\n        if addr:", "            del self._addrByName[name]\n            return True\n\n        if addr:", {"C27.R1"}, canary=True),
    Mutant("change-drop-del", NM, "Namer.changeAddrAtName", "        del self._nameByAddr[oldAddr]\n", "", {"C27.R1"}, canary=True),
    Mutant("store-before-conflict-test", NM, "Namer.changeAddrAtName", "        if addr in self._nameByAddr:\n            raise  hioing.NamerError(f\"Conflicting entry for {addr=}.\")\n\n        oldAddr = self._addrByName[name]\n        self._addrByName[name] = addr\n",
           "        oldAddr = self._addrByName[name]\n        self._addrByName[name] = addr\n        if addr in self._nameByAddr:\n            raise  hioing.NamerError(f\"Conflicting entry for {addr=}.\")\n", {"C27.R1"}, canary=True),
    Mutant("add-uncrossed", NM, "Namer.addNameAddr", "        self._nameByAddr[addr] = name\n", "        self._nameByAddr[name] = addr\n", {"C27.R1"}),
    Mutant("add-no-addr-conflict-test", NM, "Namer.addNameAddr", "        if addr in self._nameByAddr:\n            if name == self._nameByAddr[addr]:\n                return False  # already existing matching entry\n            else:\n                raise  hioing.NamerError(f\"Attempt to add conflicting entry \"\n                               f\"({name=}, {addr=}).\")\n", "", {"C27.R1"}),
    Mutant("change-old-after-overwrite", NM, "Namer.changeNameAtAddr", "        oldName = self._nameByAddr[addr]\n        self._nameByAddr[addr] = name\n", "        self._nameByAddr[addr] = name\n        oldName = self._nameByAddr[addr]\n", {"C27.R1"}),
    Mutant("rem-mismatch-check-dropped", NM, "Namer.remNameAddr", "            if addr != self._addrByName[name]:  # mismatch do nothing\n                return False\n", "", {"C27.R1"}),
    Mutant("clear-aliases-maps", NM, "Namer.clearAllNameAddr", "        self._addrByName = dict()\n        self._nameByAddr = dict()", "        self._addrByName = self._nameByAddr = dict()", {"C27.R3"}),
    Mutant("init-aliases-maps", NM, "Namer.__init__", "        self._nameByAddr = dict()\n", "        self._nameByAddr = self._addrByName\n", {"C27.R3"}),
    Mutant("silent-temp-renamed", NM, "Namer.changeAddrAtName", "oldAddr", "prior", silent=True, count=0),
]
