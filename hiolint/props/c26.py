"""C26 - Base64 integer and code conversions are exact inverses (clause level only; DESIGN 2.C26)."""
import ast
import re

from ..core import Mutant, norm
from ..absint import Interp, RETURN
from ..deps import DepDomain
from ..astutil import unparse, method_call
from ..index import dotted, walk_local

EXPLANATION = ("C26 (structural necessary conditions of invertibility only; the arithmetic over all integers is NOT decided): "
               "on every path to a return each encoder's result depends on the input its inverse must recover; the encoder's "
               "modulus/divisor and the decoder's positional weight are the same radix and the index tables cover exactly "
               "range(radix); codeB64ToB2, codeB2ToB64 and nabSextets compute the same pad-bit count 2*(n mod 4) and byte count "
               "sceil(3n/4) from their length argument with opposite shift directions; the alphabet table is injective on "
               "range(64) and its inverse is built from it.")
ASSUMPTIONS = ["the arithmetic itself (all integers, all lengths) is not decided; a passing check does not prove the round trip"]
HP = "hio.help.helping"
RECOVER = {"intToB64": "i", "codeB64ToB2": "s", "codeB2ToB64": "b", "nabSextets": "b"}


class RetDeps(DepDomain):
    def __init__(self):
        super().__init__()
        self.rets = []

    def on_return(self, stmt, state):
        self.rets.append((self.deps(stmt.value, state), state))
        return state

    def call_source(self, call, state):
        return None


def pow2(node):
    """constant radix of `x % C`, `x & C`, `x // C`, `x >> C`, `c << (e * K)`"""
    if isinstance(node, ast.BinOp) and isinstance(node.right, ast.Constant) and isinstance(node.right.value, int):
        c = node.right.value
        if isinstance(node.op, (ast.Mod, ast.FloorDiv)):
            return c
        if isinstance(node.op, ast.BitAnd):
            return c + 1
        if isinstance(node.op, ast.RShift):
            return 2 ** c
    return None


def check(run):
    ix = run.ix
    # R1 recoverability dependence
    for name, inp in sorted(RECOVER.items()):
        f = ix.func(HP, name)
        dom = RetDeps()
        res = Interp(dom, run.lat).run(f.node)
        run.paths += len(res)
        bad = [d for d, st in dom.rets if not any(x == inp or x.startswith(inp + "[") or x.startswith(inp + ".") for x in d)]
        ok = bool(dom.rets) and not bad
        run.ob("C26.R1", "%s:result-depends-on-%s" % (f.fq, inp), ok, run.site(f),
               "" if ok else "%s can return a value that does not depend on `%s` (it depends only on %s): on that path the input cannot be "
               "recovered by the inverse (e.g. intToB64(5, 0) == '' for every i)" % (name, inp, sorted(bad[0]) if bad else None))
    run.floor("C26.R1", 4)
    # R2 radix agreement
    enc, dec = ix.func(HP, "intToB64"), ix.func(HP, "b64ToInt")
    er = sorted({pow2(n) for n in walk_local(enc.node) if isinstance(n, ast.BinOp) and pow2(n) is not None})
    dr = set()
    for n in walk_local(dec.node):
        if isinstance(n, ast.BinOp) and isinstance(n.op, ast.LShift) and isinstance(n.right, ast.BinOp) and isinstance(n.right.op, ast.Mult):
            k = [x.value for x in (n.right.left, n.right.right) if isinstance(x, ast.Constant)]
            if k:
                dr.add(2 ** k[0])
        if isinstance(n, ast.BinOp) and isinstance(n.op, ast.Pow) and isinstance(n.left, ast.Constant):
            dr.add(n.left.value)
    ok = len(er) == 1 and dr == set(er)
    run.ob("C26.R2", "%s:radix-agreement" % HP, ok, run.site(enc), "" if ok else "intToB64 uses modulus/divisor %s, b64ToInt weights digits by %s: the two must be one radix" % (er, sorted(dr)))
    quot = [n for n in walk_local(enc.node) if isinstance(n, (ast.Assign, ast.AugAssign)) and dotted(n.targets[0] if isinstance(n, ast.Assign) else n.target) == "i"]
    okq = bool(quot)
    qt = None
    for n in quot:
        qt = unparse(n)
        ops = {type(x.op).__name__ for x in ast.walk(n) if isinstance(x, ast.BinOp)} | ({type(n.op).__name__} if isinstance(n, ast.AugAssign) else set())
        okq = okq and ops <= {"FloorDiv", "RShift"} and bool(ops)
    run.ob("C26.R2", "%s:integer-quotient" % enc.fq, okq, run.site(enc, quot[0]) if quot else run.site(enc),
           "" if okq else "intToB64 reduces i with `%s`; anything but integer floor division / right shift (e.g. true division) loses the high digits of "
           "integers above 2**53" % qt)
    radix = er[0] if len(er) == 1 else None
    # R4 alphabet table: ranges partition range(radix), characters distinct
    m = ix.module(HP)
    idx, chars = [], []
    stmts = [st for st in m.tree.body if "B64ChrByIdx" in unparse(st) and isinstance(st, (ast.Assign, ast.Expr))]
    for st in stmts:
        t = unparse(st)
        mo = re.search(r"index(?: \+ (\d+))?, char\) for index, char in enumerate\(\[chr\(x\) for x in range\((\d+), (\d+)\)\]\)", t)
        if mo:
            off, a, b = int(mo.group(1) or 0), int(mo.group(2)), int(mo.group(3))
            idx += list(range(off, off + b - a))
            chars += [chr(c) for c in range(a, b)]
            continue
        mo = re.fullmatch(r"B64ChrByIdx\[(\d+)\] = '(.)'", t)
        if mo:
            idx.append(int(mo.group(1)))
            chars.append(mo.group(2))
    run.rows += len(idx)
    ok = radix is not None and sorted(idx) == list(range(radix)) and len(set(chars)) == len(chars) == len(idx)
    run.ob("C26.R4", "%s:alphabet-bijective-on-range-radix" % HP, ok, "%s:%d (B64ChrByIdx)" % (m.relpath, stmts[0].lineno if stmts else 0),
           "" if ok else "B64ChrByIdx covers indices %s.. (%d entries, %d distinct characters); it must map range(%s) one-to-one" % (sorted(idx)[:3], len(idx), len(set(chars)), radix))
    run.use_module(m)
    inv = ix.globals[HP].get("B64IdxByChr")
    ok = isinstance(inv, ast.DictComp) and dotted(inv.generators[0].iter.func.value if isinstance(inv.generators[0].iter, ast.Call) and isinstance(inv.generators[0].iter.func, ast.Attribute) else None) == "B64ChrByIdx" \
        and unparse(inv.key) == unparse(inv.generators[0].target.elts[1]) and unparse(inv.value) == unparse(inv.generators[0].target.elts[0])
    run.ob("C26.R4", "%s:inverse-table-by-construction" % HP, ok, "%s (B64IdxByChr)" % m.relpath, "" if ok else "B64IdxByChr is not the inverse comprehension of B64ChrByIdx.items()")
    uses_e = any(isinstance(n, ast.Subscript) and dotted(n.value) == "B64ChrByIdx" for n in walk_local(enc.node))
    uses_d = any(isinstance(n, ast.Subscript) and dotted(n.value) == "B64IdxByChr" for n in walk_local(dec.node))
    run.ob("C26.R4", "%s:each-direction-uses-its-table" % HP, uses_e and uses_d, run.site(enc), "" if uses_e and uses_d else "intToB64 must index B64ChrByIdx and b64ToInt B64IdxByChr")
    run.floor("C26.R2", 2)
    run.floor("C26.R4", 3)
    # R3 pad agreement
    forms = {}
    for name, lenarg in (("codeB64ToB2", "len(s)"), ("codeB2ToB64", "l"), ("nabSextets", "l")):
        f = ix.func(HP, name)
        pads, counts, shifts = set(), set(), []
        for n in sorted(walk_local(f.node), key=lambda x: (getattr(x, 'lineno', 0), getattr(x, 'col_offset', 0))):
            if isinstance(n, ast.BinOp) and isinstance(n.op, ast.Mult) and isinstance(n.right, ast.BinOp) and isinstance(n.right.op, ast.Mod):
                pads.add(unparse(n).replace(lenarg, "N"))
            if isinstance(n, ast.Call) and dotted(n.func) == "sceil":
                counts.add(unparse(n.args[0]).replace(lenarg, "N"))
            if isinstance(n, ast.AugAssign) and isinstance(n.op, (ast.LShift, ast.RShift)):
                shifts.append("<<" if isinstance(n.op, ast.LShift) else ">>")
        forms[name] = (tuple(sorted(pads)), tuple(sorted(counts)), tuple(shifts), f)
    ref = forms["codeB64ToB2"]
    for name, (pads, counts, shifts, f) in sorted(forms.items()):
        ok = pads == ("2 * (N % 4)",) and counts == ("N * 3 / 4",) and pads == ref[0] and counts == ref[1]
        run.ob("C26.R3", "%s:pad-and-byte-count" % f.fq, ok, run.site(f),
               "" if ok else "%s computes pad bits %s and byte count sceil(%s); siblings use 2 * (N %% 4) and sceil(N * 3 / 4)" % (name, pads, counts))
    ok = forms["codeB64ToB2"][2] == ("<<",) and forms["codeB2ToB64"][2] == (">>",) and forms["nabSextets"][2] == (">>", "<<")
    run.ob("C26.R3", "%s:shift-directions" % HP, ok, run.site(forms["codeB64ToB2"][3]),
           "" if ok else "encode must shift the pad in (<<), decode shift it out (>>), nabSextets clear it (>> then <<); found %s" % {k: v[2] for k, v in forms.items()})
    run.floor("C26.R3", 4)


MUTANTS = [
    Mutant("decode-ignores-input", HP, "codeB2ToB64", "    i = int.from_bytes(b[:n], 'big')  # convert only first n bytes to int\n", "    i = 0\n", {"C26.R1"}, canary=True),
    Mutant("modulus-63", HP, "intToB64", "i % 64", "i % 63", {"C26.R2"}, canary=True),
    Mutant("float-quotient", HP, "intToB64", "i = i // 64", "i = int(i / 64)", {"C26.R2"}),
    Mutant("weight-5-bits", HP, "b64ToInt", "(e * 6)", "(e * 5)", {"C26.R2"}),
    Mutant("pad-mod-3-in-one-sibling", HP, "codeB2ToB64", "tbs = 2 * (l % 4)", "tbs = 2 * (l % 3)", {"C26.R3"}, canary=True),
    Mutant("nab-bytecount-floor", HP, "nabSextets", "n = sceil(l * 3 / 4)", "n = sceil(l * 3 // 4)", {"C26.R3"}),
    Mutant("alphabet-duplicate", HP, None, "B64ChrByIdx[63] = '_'", "B64ChrByIdx[63] = '-'", {"C26.R4"}, canary=True),
    Mutant("encode-shift-right", HP, "codeB64ToB2", "i <<= 2 * (len(s) % 4)", "i >>= 2 * (len(s) % 4)", {"C26.R3"}),
    Mutant("silent-and-63", HP, "intToB64", "i % 64", "i & 63", silent=True),
    Mutant("silent-shift-6", HP, "intToB64", "i = i // 64", "i = i >> 6", silent=True),
]
