"""C25 - boxwork transitions run exit/enter actions in documented nested order (DESIGN 2.C25)."""
import ast

from ..core import Mutant, norm
from ..absint import Domain, Interp, NORMAL, RETURN, BREAK, CONTINUE, is_raise
from ..astutil import method_call, unparse, is_self_call, parent, alpha
from ..index import dotted, walk_local
from ..loader import AnalysisError

EXPLANATION = ("C25: positional orientation flow: the four lists returned by Boxer.exen are classified (near/far pile, common / "
               "uncommon part, top-down / bottom-up) and followed by position through the tuple unpacking in Boxer.run to "
               "exdo <- (near, uncommon, bottom-up), rexdo <- (common, bottom-up), rendo <- (common, top-down), endo <- (far, "
               "uncommon, top-down); end() hands exdo a bottom-up pile; tentative/commit: lists obtained for a transition reach "
               "rendo/endo only after the commit self.box = dest; call order exdo, rexdo, rendo, endo, redo; Box.*do iterate "
               "their act lists forward and acts are registered with append.")
ASSUMPTIONS = ["box piles are built top-down by Box._trace (over chain inserted at the front)", "getattr-dispatched verbs are outside the analysis"]
BX = "hio.base.hier.boxing"
WANT = {"exdo": ("nears", "uncommon", "bottom-up"), "rexdo": (None, "common", "bottom-up"),
        "rendo": (None, "common", "top-down"), "endo": ("fars", "uncommon", "top-down")}


def classify(e):
    """(pile variable, part, orientation) of a sequence expression over piles that are top-down."""
    rev = False
    while True:
        if isinstance(e, ast.Call) and dotted(e.func) in ("list", "tuple") and len(e.args) == 1:
            e = e.args[0]
            continue
        if isinstance(e, ast.Call) and dotted(e.func) == "reversed" and len(e.args) == 1:
            rev = not rev
            e = e.args[0]
            continue
        if isinstance(e, ast.Subscript) and isinstance(e.slice, ast.Slice) and isinstance(e.slice.step, ast.UnaryOp) \
                and isinstance(e.slice.step.op, ast.USub) and getattr(e.slice.step.operand, "value", 0) == 1 \
                and e.slice.lower is None and e.slice.upper is None:
            rev = not rev
            e = e.value
            continue
        break
    part = "whole"
    if isinstance(e, ast.Subscript) and isinstance(e.slice, ast.Slice):
        if e.slice.lower is not None and e.slice.upper is None:
            part = "uncommon"
        elif e.slice.lower is None and e.slice.upper is not None:
            part = "common"
        else:
            part = "?"
        e = e.value
    return (dotted(e), part, "bottom-up" if rev else "top-down")


class TentativeDomain(Domain):
    """state = {list name: 'empty' | 'tentative' | 'committed' | 'initial'}"""

    def __init__(self):
        self.uses = []

    def initial(self):
        return frozenset({("endos", "initial"), ("rendos", "initial")})

    @staticmethod
    def _set(state, names, kind):
        d = dict(state)
        for n in names:
            if n in d:
                d[n] = kind
        return frozenset(d.items())

    def on_store(self, target, value, state, stmt):
        if isinstance(target, ast.Name) and target.id in ("endos", "rendos"):
            if isinstance(value, tuple) and value[0] == "unpack":
                return self._set(state, [target.id], "tentative")
            if isinstance(value, ast.List) and not value.elts:
                return self._set(state, [target.id], "empty")
            return self._set(state, [target.id], "initial")
        if dotted(target) == "self.box" and isinstance(stmt, ast.Assign) and isinstance(stmt.value, ast.Name):
            d = dict(state)
            return frozenset((k, "committed" if v == "tentative" else v) for k, v in d.items())
        return state

    def on_event(self, node, state):
        if isinstance(node, ast.Call):
            m = is_self_call(node)
            if m in ("endo", "rendo") and node.args and isinstance(node.args[0], ast.Name):
                self.uses.append((m, node.args[0].id, dict(state).get(node.args[0].id), node))
        yield state, NORMAL


class OrderDomain(Domain):
    """sequence of transition calls in one pass"""

    def initial(self):
        return ()

    def on_event(self, node, state):
        if isinstance(node, ast.Call):
            m = is_self_call(node)
            if m in ("exdo", "rexdo", "rendo", "endo", "redo"):
                yield (state + (m,))[-8:], NORMAL
                return
        yield state, NORMAL


def conjunction_shape(f):
    """('all' | 'last' | 'unknown', node, why) for a function that folds a loop of boolean results.
    Recognised: (A) `for x in L: if not <call>: return False` ... `return True`; (B) `R = True; for x in L: R = <call>; if not R: break|return`
    ... `return R`; (C) `return all(...)`."""
    rets = [n for n in walk_local(f.node) if isinstance(n, ast.Return)]
    if any(isinstance(r.value, ast.Call) and dotted(r.value.func) == "all" for r in rets):
        return "all", None, ""
    loops = [n for n in walk_local(f.node) if isinstance(n, (ast.For, ast.While))]
    if len(loops) != 1:
        return "unknown", None, "%d loops" % len(loops)
    lp = loops[0]
    retvars = {dotted(r.value) for r in rets if isinstance(r.value, ast.Name)}
    # idiom A
    for st in lp.body:
        if isinstance(st, ast.If) and isinstance(st.test, ast.UnaryOp) and isinstance(st.test.op, ast.Not) and isinstance(st.test.operand, ast.Call) \
                and st.body and isinstance(st.body[-1], ast.Return) and getattr(st.body[-1].value, "value", None) is False:
            tail = [r for r in rets if r.lineno > lp.end_lineno]
            if tail and all(getattr(r.value, "value", None) is True for r in tail):
                return "all", st, ""
    # idiom B
    assigns = [n for n in ast.walk(lp) if isinstance(n, ast.Assign) and isinstance(n.targets[0], ast.Name) and n.targets[0].id in retvars
               and any(isinstance(c, ast.Call) for c in ast.walk(n.value))]
    if not assigns:
        dropped = [st for st in lp.body if isinstance(st, ast.Expr) and isinstance(st.value, ast.Call)]
        if dropped and rets and all(getattr(r.value, "value", None) is True for r in rets):
            return "last", dropped[0], "the result of `%s` is discarded and the function returns True regardless" % unparse(dropped[0])
        return "unknown", None, "no result variable assigned from a call inside the loop"
    for a in assigns:
        r = a.targets[0].id
        if isinstance(a.value, ast.BoolOp) and isinstance(a.value.op, ast.And) and dotted(a.value.values[0]) == r:
            continue            # R = R and <call>
        blk = None
        p_ = parent(a)
        for field in ("body", "orelse"):
            b_ = getattr(p_, field, None)
            if isinstance(b_, list) and a in b_:
                blk = b_
        nxt = blk[blk.index(a) + 1] if blk is not None and blk.index(a) + 1 < len(blk) else None
        stops = isinstance(nxt, ast.If) and isinstance(nxt.test, ast.UnaryOp) and isinstance(nxt.test.op, ast.Not) and dotted(nxt.test.operand) == r \
            and nxt.body and isinstance(nxt.body[-1], (ast.Break, ast.Return))
        # the stop must leave the loop on every iteration that produced a falsy result: the assignment and its test sit directly in the loop body
        if not (stops and p_ is lp):
            return "last", a, "`%s` is overwritten by later elements (no `if not %s: break` directly after it in the loop body), so the result is that " \
                   "of the last element evaluated" % (unparse(a), r)
    return "all", assigns[0], ""


def check(run):
    ix = run.ix
    boxer = ix.cls(BX, "Boxer")
    exen, runf, end = ix.method(boxer, "exen"), ix.method(boxer, "run"), ix.method(boxer, "end")
    rets = [n for n in walk_local(exen.node) if isinstance(n, ast.Return) and isinstance(n.value, ast.Tuple)]
    if not rets or any(len(r.value.elts) != 4 for r in rets):
        raise AnalysisError("Boxer.exen no longer returns 4-tuples")
    elts = [classify(e) for e in rets[0].value.elts]
    # every return statement must hand out the same four roles (a second return that takes the boxes to enter from the near pile instead
    # of the far pile enters boxes of the branch that was just left)
    for r in rets[1:]:
        other = [classify(e) for e in r.value.elts]
        same = other == elts
        run.ob("C25.R1", "%s:all-returns-same-roles" % exen.fq, same, run.site(exen, r),
               "" if same else "exen() has a return whose lists are %s while another returns %s: (exdos, endos, rexdos, rendos) must be "
               "(near uncommon bottom-up, far uncommon top-down, near common bottom-up, far common top-down) on every path" % (other, elts))
    run.extra["exen_return"] = [list(x) for x in elts]
    pnames = exen.params()[0]
    binds = {n.targets[0].id: unparse(n.value) for n in walk_local(exen.node) if isinstance(n, ast.Assign) and isinstance(n.targets[0], ast.Name)}
    used = sorted({x[0] for x in elts if x[0]})
    pilevar = {}
    for role, param in (("nears", pnames[0]), ("fars", pnames[1])):
        cands = [v for v, t in binds.items() if t == "%s.pile" % param]
        ok = len(cands) == 1 and cands[0] in used
        if ok:
            pilevar[cands[0]] = role
        run.ob("C25.R1", "%s:%s-is-%s-pile" % (exen.fq, role, param), ok, run.site(exen),
               "" if ok else "exen() does not slice a variable bound to the whole %s.pile (bindings: %s; sliced: %s)" % (param, {k: v for k, v in binds.items() if "pile" in v or k in used}, used))
    elts = [(pilevar.get(x[0], x[0]), x[1], x[2]) for x in elts]
    # follow by position through the unpacking in run
    unpack = [n for n in walk_local(runf.node) if isinstance(n, ast.Assign) and isinstance(n.value, ast.Call) and is_self_call(n.value, "exen")
              and isinstance(n.targets[0], ast.Tuple)]
    if len(unpack) != 1 or len(unpack[0].targets[0].elts) != 4:
        raise AnalysisError("Boxer.run no longer unpacks exen() into four names")
    bound = {t.id: elts[i] for i, t in enumerate(unpack[0].targets[0].elts) if isinstance(t, ast.Name)}
    # the transition is computed relative to the active box: the goact that fired may belong to an ancestor, whose own pile descends
    # through its primary under and is not the active pile when the active box sits on another branch
    near_arg = unpack[0].value.args[0] if unpack[0].value.args else None
    ok = dotted(near_arg) == "self.box"
    run.ob("C25.R1", "%s:transition-relative-to-active-box" % runf.fq, ok, run.site(runf, unpack[0]),
           "" if ok else "run() calls exen(%s, dest): the near pile must be that of the active box self.box; with the box whose goact fired (an "
           "ancestor) the boxes exited are those of its primary branch, not the active ones" % (unparse(near_arg) if near_arg is not None else None))
    for verb, (pile, part, orient) in sorted(WANT.items()):
        calls = [n for n in walk_local(runf.node) if isinstance(n, ast.Call) and is_self_call(n, verb) and n.args and isinstance(n.args[0], ast.Name)]
        ok = bool(calls)
        what = "run() never calls %s()" % verb
        for c in calls:
            got = bound.get(c.args[0].id)
            if got is None:
                ok = False
                what = "%s() is given `%s`, which is not one of exen()'s lists" % (verb, c.args[0].id)
                break
            good = got[1] == part and got[2] == orient and (pile is None or got[0] == pile)
            if not good:
                ok = False
                what = "%s() receives %s (%s part of %s, %s); the documented order needs the %s part %s%s" % (
                    verb, c.args[0].id, got[1], got[0], got[2], part, orient, (" of " + pile) if pile else "")
                break
        run.ob("C25.R1", "%s:%s-gets-right-list" % (runf.fq, verb), ok, run.site(runf, calls[0]) if calls else run.site(runf), "" if ok else what)
    ecalls = [n for n in walk_local(end.node) if isinstance(n, ast.Call) and is_self_call(n, "exdo") and n.args]
    got = classify(ecalls[0].args[0]) if ecalls else None
    ok = got is not None and got[0] == "self.box.pile" and got[1] == "whole" and got[2] == "bottom-up"
    run.ob("C25.R1", "%s:exits-bottom-up" % end.fq, ok, run.site(end), "" if ok else "end() hands exdo() %s; every active box must be exited bottom-up" % (got,))
    # exen's own classification sanity: near uncommon bottom-up, far uncommon top-down, common both ways
    kinds = sorted((x[1], x[2]) for x in elts)
    ok = kinds == [("common", "bottom-up"), ("common", "top-down"), ("uncommon", "bottom-up"), ("uncommon", "top-down")]
    run.ob("C25.R1", "%s:returns-four-distinct-roles" % exen.fq, ok, run.site(exen), "" if ok else "exen() returns %s" % elts)
    # the split point: the first index at which the far box itself is reached in the near pile (forced re-entry of far and everything
    # below it) or at which the two piles differ.  Both must be unconditioned disjuncts of the loop's test.
    nearv = next((v for v, r in pilevar.items() if r == "nears"), None)
    farv = next((v for v, r in pilevar.items() if r == "fars"), None)
    loops = [n for n in walk_local(exen.node) if isinstance(n, ast.For) and isinstance(n.target, ast.Name)]
    found = None
    for lp in loops:
        for st in lp.body:
            if isinstance(st, ast.If) and any(isinstance(x, ast.Return) for x in ast.walk(st)):
                found = (lp, st)
    if found is None or nearv is None or farv is None:
        run.inconclusive_at("C25.R1", run.site(exen), "exen(): split loop `for i in range(l): if <test>: return (...)` not recognised")
    else:
        lp, st = found
        ren = {nearv: "nears", farv: "fars", lp.target.id: "i", pnames[0]: "near", pnames[1]: "far"}
        t = alpha(st.test, ren)
        disj = t.values if isinstance(t, ast.BoolOp) and isinstance(t.op, ast.Or) else [t]

        def canon(c):
            if isinstance(c, ast.Compare) and len(c.ops) == 1 and isinstance(c.ops[0], (ast.Is, ast.IsNot)):
                return (type(c.ops[0]).__name__, frozenset((unparse(c.left), unparse(c.comparators[0]))))
            return ("other", unparse(c))
        have = {canon(c) for c in disj}
        want = {("Is", frozenset(("far", "nears[i]"))), ("IsNot", frozenset(("fars[i]", "nears[i]")))}
        missing = want - have
        extra = have - want
        ok = not missing and not extra
        if not ok and not any(w[1] <= {x for c in ast.walk(t) if isinstance(c, ast.Compare) for x in (unparse(c.left), unparse(c.comparators[0]))} for w in missing):
            run.inconclusive_at("C25.R1", run.site(exen, st), "exen(): split test `%s` is not built from the recognised comparisons" % unparse(st.test))
        else:
            run.ob("C25.R1", "%s:split-at-far-or-first-difference" % exen.fq, ok, run.site(exen, st),
                   "" if ok else "exen() splits the piles where `%s`; the documented split is the first index where the far box itself is reached in the "
                   "near pile (forced exit and re-entry of far and all below it) or where the piles differ, each unconditionally (%s)" %
                   (unparse(st.test), "; ".join(["missing or conditioned: %s %s" % (k, sorted(v)) for k, v in sorted(missing, key=str)] +
                                                ["extra: %s" % (e,) for e in sorted(extra, key=str)])))
    run.floor("C25.R1", 10)
    # R4 entry preconditions are a conjunction: one unmet precondition refuses the transition
    for owner, q in ((boxer, "predo"), (ix.cls(BX, "Box"), "predo")):
        f = ix.method(owner, q)
        kind, node, why = conjunction_shape(f)
        if kind == "unknown":
            run.inconclusive_at("C25.R4", run.site(f), "%s: conjunction idiom not recognised (%s)" % (f.qualname, why))
            continue
        run.ob("C25.R4", "%s:all-preconditions-must-hold" % f.fq, kind == "all", run.site(f, node) if node is not None else run.site(f),
               "" if kind == "all" else "%s does not return the conjunction of its elements' results: %s; a transition is taken although an entry "
               "precondition of one of the boxes to be entered is not met" % (f.qualname, why))
    run.floor("C25.R4", 2)
    # R2 tentative / commit
    dom = TentativeDomain()
    res = Interp(dom, run.lat).run(runf.node)
    run.paths += len(res)
    bad = [(m, v, k, n) for m, v, k, n in dom.uses if k == "tentative"]
    ok = bool(dom.uses) and not bad
    run.ob("C25.R2", "%s:uncommitted-lists-never-entered" % runf.fq, ok, run.site(runf, bad[0][3]) if bad else run.site(runf),
           "" if ok else "`self.%s(%s)` is reachable with the list of a transition that was rejected by predo() (never committed by self.box = dest): "
           "boxes of a transition that did not happen are entered" % (bad[0][0], bad[0][1]) if bad else "no endo/rendo use found")
    run.floor("C25.R2", 1)
    # R3 call order: in the transit block exdo, rexdo, then the commit; at the end of a pass rendo, endo, redo
    def block_order(names):
        """statement-order of the first block that contains calls of all `names` as direct statements"""
        for n in [runf.node] + list(walk_local(runf.node)):
            for field in ("body", "orelse"):
                blk = getattr(n, field, None)
                if not isinstance(blk, list):
                    continue
                pos = {}
                for idx, st in enumerate(blk):
                    if isinstance(st, ast.Expr) and isinstance(st.value, ast.Call) and is_self_call(st.value) in names:
                        pos.setdefault(is_self_call(st.value), idx)
                    if isinstance(st, ast.Assign) and dotted(st.targets[0]) == "self.box" and "commit" in names and isinstance(st.value, ast.Name):
                        pos.setdefault("commit", idx)
                if set(pos) == set(names):
                    yield [k for k, v in sorted(pos.items(), key=lambda kv: kv[1])], blk[0]
    seqs = list(block_order(("exdo", "rexdo", "commit")))
    ok = bool(seqs) and all(o == ["exdo", "rexdo", "commit"] for o, _ in seqs)
    run.ob("C25.R3", "%s:transit-order" % runf.fq, ok, run.site(runf, seqs[0][1]) if seqs else run.site(runf),
           "" if ok else "on a transition the order is %s; documented: exit left boxes (exdo), re-exit kept boxes (rexdo), then make the destination active" % ([o for o, _ in seqs],))
    seqs = list(block_order(("rendo", "endo", "redo")))
    ok = len(seqs) >= 2 and all(o == ["rendo", "endo", "redo"] for o, _ in seqs)
    run.ob("C25.R3", "%s:enter-order" % runf.fq, ok, run.site(runf),
           "" if ok else "entry actions run in order %s; documented: re-enter kept boxes (rendo), enter new boxes (endo), then redo" % ([o for o, _ in seqs],))
    box = ix.cls(BX, "Box")
    for verb in ("predo", "rendo", "endo", "redo", "afdo", "exdo", "rexdo"):
        f = ix.method(box, verb)
        loops = [n for n in walk_local(f.node) if isinstance(n, ast.For)]
        ok = bool(loops) and all(isinstance(l.iter, ast.Attribute) and dotted(l.iter).startswith("self.") for l in loops)
        run.ob("C25.R3", "%s:iterates-acts-forward" % f.fq, ok, run.site(f), "" if ok else "Box.%s does not iterate its act list(s) in registration order" % verb)
    run.floor("C25.R3", 9)


MUTANTS = [
    Mutant("reintroduce-exen-from-goact-box", BX, "Boxer.run", "self.exen(self.box, dest)", "self.exen(box, dest)", {"C25.R1"}, canary=True),
    Mutant("exen-forced-reentry-conditioned", BX, "Boxer.exen", "if (far is nears[i]) or (fars[i] is not nears[i]):", "if (fars == nears and far is nears[i]) or (fars[i] is not nears[i]):", {"C25.R1"}),
    Mutant("predo-result-of-last-box", BX, "Boxer.predo", "            met = box.predo()\n            if not met:\n                break\n", "            if box.preacts:\n                met = box.predo()\n", {"C25.R4"}, canary=True),
    Mutant("box-predo-ignores-failure", BX, "Box.predo", "            if not preact():\n                return False\n", "            preact()\n", {"C25.R4"}),
    Mutant("reintroduce-swapped-unpack", BX, "Boxer.run", "exdos, endos, rexdos, rendos = self.exen(self.box, dest)", "exdos, endos, rendos, rexdos = self.exen(self.box, dest)", {"C25.R1"}, canary=True),
    Mutant("reintroduce-end-topdown", BX, "Boxer.end", "self.exdo(list(reversed(self.box.pile)))", "self.exdo(self.box.pile)", {"C25.R1"}, canary=True),
    Mutant("reintroduce-stale-endos", BX, "Boxer.run", "                            rendos = []  # no transit so nothing to re-enter\n                            endos = []  # no transit so nothing to enter\n", "", {"C25.R2"}, canary=True),
    Mutant("rexdo-before-exdo", BX, "Boxer.run", "                        self.exdo(exdos)  # exdo bottom up\n                        self.rexdo(rexdos)  # rexdo bottom up  (boxes retained)\n", "                        self.rexdo(rexdos)  # rexdo bottom up  (boxes retained)\n                        self.exdo(exdos)  # exdo bottom up\n", {"C25.R3"}, canary=True),
    Mutant("exen-exdos-topdown", BX, "Boxer.exen", "return (list(reversed(nears[i:])), fars[i:],", "return (nears[i:], fars[i:],", {"C25.R1"}),
    Mutant("box-endo-reversed", BX, "Box.endo", "for enact in self.enacts:", "for enact in reversed(self.enacts):", {"C25.R3"}),
    Mutant("endo-before-rendo", BX, "Boxer.run", "                break\n\n            self.rendo(rendos)  # rendo nabe, action remarks and renacts\n            self.endo(endos)  # endo nabe, action enmarks and enacts\n", "                break\n\n            self.endo(endos)\n            self.rendo(rendos)\n", {"C25.R3"}),
    Mutant("exen-fars-shortcut", BX, "Boxer.exen", "fars = far.pile  # top down order", "fars = far.pile if far not in nears else nears", {"C25.R1"}),
    Mutant("silent-exen-list", BX, "Boxer.exen", "return (list(reversed(nears[i:])), fars[i:],", "return (nears[i:][::-1], fars[i:],", silent=True),
]
