"""C25 - boxwork transitions run exit/enter actions in documented nested order (DESIGN 2.C25)."""
import ast

from ..core import Mutant, norm
from ..absint import Domain, Interp, NORMAL, RETURN, BREAK, CONTINUE, is_raise
from ..astutil import method_call, unparse, is_self_call, parent
from ..index import dotted, walk_local
from ..loader import AnalysisError

EXPLANATION = ("C25: positional orientation flow: the four lists returned by Boxer.exen are classified (near/far pile, common / "
               "uncommon part, top-down / bottom-up) and followed by position through the tuple unpacking in Boxer.run to "
               "exdo <- (near, uncommon, bottom-up), rexdo <- (common, bottom-up), rendo <- (common, top-down), endo <- (far, "
               "uncommon, top-down); end() hands exdo a bottom-up pile; tentative/commit: lists obtained for a transition reach "
               "rendo/endo only after the commit self.box = dest; call order exdo, rexdo, rendo, endo, redo; Box.*do iterate "
               "their act lists forward and acts are registered with append.")
ASSUMPTIONS = ["box piles are built top-down by Box._trace (over chain inserted at the front)", "getattr-dispatched verbs are outside the analysis"]
BX = "hio.base.hier.boxing"
WANT = {"exdo": ("nears", "uncommon", "bottom-up"), "rexdo": (None, "common", "bottom-up"),
        "rendo": (None, "common", "top-down"), "endo": ("fars", "uncommon", "top-down")}


def classify(e):
    """(pile variable, part, orientation) of a sequence expression over piles that are top-down."""
    rev = False
    while True:
        if isinstance(e, ast.Call) and dotted(e.func) in ("list", "tuple") and len(e.args) == 1:
            e = e.args[0]
            continue
        if isinstance(e, ast.Call) and dotted(e.func) == "reversed" and len(e.args) == 1:
            rev = not rev
            e = e.args[0]
            continue
        if isinstance(e, ast.Subscript) and isinstance(e.slice, ast.Slice) and isinstance(e.slice.step, ast.UnaryOp) \
                and isinstance(e.slice.step.op, ast.USub) and getattr(e.slice.step.operand, "value", 0) == 1 \
                and e.slice.lower is None and e.slice.upper is None:
            rev = not rev
            e = e.value
            continue
        break
    part = "whole"
    if isinstance(e, ast.Subscript) and isinstance(e.slice, ast.Slice):
        if e.slice.lower is not None and e.slice.upper is None:
            part = "uncommon"
        elif e.slice.lower is None and e.slice.upper is not None:
            part = "common"
        else:
            part = "?"
        e = e.value
    return (dotted(e), part, "bottom-up" if rev else "top-down")


class TentativeDomain(Domain):
    """state = {list name: 'empty' | 'tentative' | 'committed' | 'initial'}"""

    def __init__(self):
        self.uses = []

    def initial(self):
        return frozenset({("endos", "initial"), ("rendos", "initial")})

    @staticmethod
    def _set(state, names, kind):
        d = dict(state)
        for n in names:
            if n in d:
                d[n] = kind
        return frozenset(d.items())

    def on_store(self, target, value, state, stmt):
        if isinstance(target, ast.Name) and target.id in ("endos", "rendos"):
            if isinstance(value, tuple) and value[0] == "unpack":
                return self._set(state, [target.id], "tentative")
            if isinstance(value, ast.List) and not value.elts:
                return self._set(state, [target.id], "empty")
            return self._set(state, [target.id], "initial")
        if dotted(target) == "self.box" and isinstance(stmt, ast.Assign) and isinstance(stmt.value, ast.Name):
            d = dict(state)
            return frozenset((k, "committed" if v == "tentative" else v) for k, v in d.items())
        return state

    def on_event(self, node, state):
        if isinstance(node, ast.Call):
            m = is_self_call(node)
            if m in ("endo", "rendo") and node.args and isinstance(node.args[0], ast.Name):
                self.uses.append((m, node.args[0].id, dict(state).get(node.args[0].id), node))
        yield state, NORMAL


class OrderDomain(Domain):
    """sequence of transition calls in one pass"""

    def initial(self):
        return ()

    def on_event(self, node, state):
        if isinstance(node, ast.Call):
            m = is_self_call(node)
            if m in ("exdo", "rexdo", "rendo", "endo", "redo"):
                yield (state + (m,))[-8:], NORMAL
                return
        yield state, NORMAL


def check(run):
    ix = run.ix
    boxer = ix.cls(BX, "Boxer")
    exen, runf, end = ix.method(boxer, "exen"), ix.method(boxer, "run"), ix.method(boxer, "end")
    rets = [n for n in walk_local(exen.node) if isinstance(n, ast.Return) and isinstance(n.value, ast.Tuple)]
    if len(rets) != 1 or len(rets[0].value.elts) != 4:
        raise AnalysisError("Boxer.exen no longer returns one 4-tuple")
    elts = [classify(e) for e in rets[0].value.elts]
    run.extra["exen_return"] = [list(x) for x in elts]
    pnames = exen.params()[0]
    binds = {n.targets[0].id: unparse(n.value) for n in walk_local(exen.node) if isinstance(n, ast.Assign) and isinstance(n.targets[0], ast.Name)}
    used = sorted({x[0] for x in elts if x[0]})
    pilevar = {}
    for role, param in (("nears", pnames[0]), ("fars", pnames[1])):
        cands = [v for v, t in binds.items() if t == "%s.pile" % param]
        ok = len(cands) == 1 and cands[0] in used
        if ok:
            pilevar[cands[0]] = role
        run.ob("C25.R1", "%s:%s-is-%s-pile" % (exen.fq, role, param), ok, run.site(exen),
               "" if ok else "exen() does not slice a variable bound to the whole %s.pile (bindings: %s; sliced: %s)" % (param, {k: v for k, v in binds.items() if "pile" in v or k in used}, used))
    elts = [(pilevar.get(x[0], x[0]), x[1], x[2]) for x in elts]
    # follow by position through the unpacking in run
    unpack = [n for n in walk_local(runf.node) if isinstance(n, ast.Assign) and isinstance(n.value, ast.Call) and is_self_call(n.value, "exen")
              and isinstance(n.targets[0], ast.Tuple)]
    if len(unpack) != 1 or len(unpack[0].targets[0].elts) != 4:
        raise AnalysisError("Boxer.run no longer unpacks exen() into four names")
    bound = {t.id: elts[i] for i, t in enumerate(unpack[0].targets[0].elts) if isinstance(t, ast.Name)}
    for verb, (pile, part, orient) in sorted(WANT.items()):
        calls = [n for n in walk_local(runf.node) if isinstance(n, ast.Call) and is_self_call(n, verb) and n.args and isinstance(n.args[0], ast.Name)]
        ok = bool(calls)
        what = "run() never calls %s()" % verb
        for c in calls:
            got = bound.get(c.args[0].id)
            if got is None:
                ok = False
                what = "%s() is given `%s`, which is not one of exen()'s lists" % (verb, c.args[0].id)
                break
            good = got[1] == part and got[2] == orient and (pile is None or got[0] == pile)
            if not good:
                ok = False
                what = "%s() receives %s (%s part of %s, %s); the documented order needs the %s part %s%s" % (
                    verb, c.args[0].id, got[1], got[0], got[2], part, orient, (" of " + pile) if pile else "")
                break
        run.ob("C25.R1", "%s:%s-gets-right-list" % (runf.fq, verb), ok, run.site(runf, calls[0]) if calls else run.site(runf), "" if ok else what)
    ecalls = [n for n in walk_local(end.node) if isinstance(n, ast.Call) and is_self_call(n, "exdo") and n.args]
    got = classify(ecalls[0].args[0]) if ecalls else None
    ok = got is not None and got[0] == "self.box.pile" and got[1] == "whole" and got[2] == "bottom-up"
    run.ob("C25.R1", "%s:exits-bottom-up" % end.fq, ok, run.site(end), "" if ok else "end() hands exdo() %s; every active box must be exited bottom-up" % (got,))
    # exen's own classification sanity: near uncommon bottom-up, far uncommon top-down, common both ways
    kinds = sorted((x[1], x[2]) for x in elts)
    ok = kinds == [("common", "bottom-up"), ("common", "top-down"), ("uncommon", "bottom-up"), ("uncommon", "top-down")]
    run.ob("C25.R1", "%s:returns-four-distinct-roles" % exen.fq, ok, run.site(exen), "" if ok else "exen() returns %s" % elts)
    run.floor("C25.R1", 8)
    # R2 tentative / commit
    dom = TentativeDomain()
    res = Interp(dom, run.lat).run(runf.node)
    run.paths += len(res)
    bad = [(m, v, k, n) for m, v, k, n in dom.uses if k == "tentative"]
    ok = bool(dom.uses) and not bad
    run.ob("C25.R2", "%s:uncommitted-lists-never-entered" % runf.fq, ok, run.site(runf, bad[0][3]) if bad else run.site(runf),
           "" if ok else "`self.%s(%s)` is reachable with the list of a transition that was rejected by predo() (never committed by self.box = dest): "
           "boxes of a transition that did not happen are entered" % (bad[0][0], bad[0][1]) if bad else "no endo/rendo use found")
    run.floor("C25.R2", 1)
    # R3 call order: in the transit block exdo, rexdo, then the commit; at the end of a pass rendo, endo, redo
    def block_order(names):
        """statement-order of the first block that contains calls of all `names` as direct statements"""
        for n in [runf.node] + list(walk_local(runf.node)):
            for field in ("body", "orelse"):
                blk = getattr(n, field, None)
                if not isinstance(blk, list):
                    continue
                pos = {}
                for idx, st in enumerate(blk):
                    if isinstance(st, ast.Expr) and isinstance(st.value, ast.Call) and is_self_call(st.value) in names:
                        pos.setdefault(is_self_call(st.value), idx)
                    if isinstance(st, ast.Assign) and dotted(st.targets[0]) == "self.box" and "commit" in names and isinstance(st.value, ast.Name):
                        pos.setdefault("commit", idx)
                if set(pos) == set(names):
                    yield [k for k, v in sorted(pos.items(), key=lambda kv: kv[1])], blk[0]
    seqs = list(block_order(("exdo", "rexdo", "commit")))
    ok = bool(seqs) and all(o == ["exdo", "rexdo", "commit"] for o, _ in seqs)
    run.ob("C25.R3", "%s:transit-order" % runf.fq, ok, run.site(runf, seqs[0][1]) if seqs else run.site(runf),
           "" if ok else "on a transition the order is %s; documented: exit left boxes (exdo), re-exit kept boxes (rexdo), then make the destination active" % ([o for o, _ in seqs],))
    seqs = list(block_order(("rendo", "endo", "redo")))
    ok = len(seqs) >= 2 and all(o == ["rendo", "endo", "redo"] for o, _ in seqs)
    run.ob("C25.R3", "%s:enter-order" % runf.fq, ok, run.site(runf),
           "" if ok else "entry actions run in order %s; documented: re-enter kept boxes (rendo), enter new boxes (endo), then redo" % ([o for o, _ in seqs],))
    box = ix.cls(BX, "Box")
    for verb in ("predo", "rendo", "endo", "redo", "afdo", "exdo", "rexdo"):
        f = ix.method(box, verb)
        loops = [n for n in walk_local(f.node) if isinstance(n, ast.For)]
        ok = bool(loops) and all(isinstance(l.iter, ast.Attribute) and dotted(l.iter).startswith("self.") for l in loops)
        run.ob("C25.R3", "%s:iterates-acts-forward" % f.fq, ok, run.site(f), "" if ok else "Box.%s does not iterate its act list(s) in registration order" % verb)
    run.floor("C25.R3", 9)


MUTANTS = [
    Mutant("reintroduce-swapped-unpack", BX, "Boxer.run", "exdos, endos, rexdos, rendos = self.exen(box, dest)", "exdos, endos, rendos, rexdos = self.exen(box, dest)", {"C25.R1"}, canary=True),
    Mutant("reintroduce-end-topdown", BX, "Boxer.end", "self.exdo(list(reversed(self.box.pile)))", "self.exdo(self.box.pile)", {"C25.R1"}, canary=True),
    Mutant("reintroduce-stale-endos", BX, "Boxer.run", "                            rendos = []  # no transit so nothing to re-enter\n                            endos = []  # no transit so nothing to enter\n", "", {"C25.R2"}, canary=True),
    Mutant("rexdo-before-exdo", BX, "Boxer.run", "                        self.exdo(exdos)  # exdo bottom up\n                        self.rexdo(rexdos)  # rexdo bottom up  (boxes retained)\n", "                        self.rexdo(rexdos)  # rexdo bottom up  (boxes retained)\n                        self.exdo(exdos)  # exdo bottom up\n", {"C25.R3"}, canary=True),
    Mutant("exen-exdos-topdown", BX, "Boxer.exen", "return (list(reversed(nears[i:])), fars[i:],", "return (nears[i:], fars[i:],", {"C25.R1"}),
    Mutant("box-endo-reversed", BX, "Box.endo", "for enact in self.enacts:", "for enact in reversed(self.enacts):", {"C25.R3"}),
    Mutant("endo-before-rendo", BX, "Boxer.run", "                break\n\n            self.rendo(rendos)  # rendo nabe, action remarks and renacts\n            self.endo(endos)  # endo nabe, action enmarks and enacts\n", "                break\n\n            self.endo(endos)\n            self.rendo(rendos)\n", {"C25.R3"}),
    Mutant("exen-fars-shortcut", BX, "Boxer.exen", "fars = far.pile  # top down order", "fars = far.pile if far not in nears else nears", {"C25.R1"}),
    Mutant("silent-exen-list", BX, "Boxer.exen", "return (list(reversed(nears[i:])), fars[i:],", "return (nears[i:][::-1], fars[i:],", silent=True),
]
