"""C22 - memo receivers survive arbitrary datagrams and accept only authentic memos (DESIGN 2.C22)."""
import ast

from ..core import Mutant, norm
from .. import memo
from ..escape import Escape, RAISER_TABLE, NOT_IN_TABLE
from ..absint import Domain, Interp, NORMAL, RETURN, RAISE, is_raise
from ..astutil import method_call, unparse, is_self_call, parent, in_subtree, flat
from ..index import dotted, walk_local
from ..loader import AnalysisError

EXPLANATION = ("C22: raise/catch analysis (E7) from Memoer.serviceAllRx and AuthMemoer.serviceAllRx with taint seeded from the "
               "received datagram: no input-dependent exception kind may escape; authentication gate: in both branches of pick() "
               "the `authic => code in Audex` test raising MemoerError dominates the return, every AuthDex code has az > 0, "
               "verify() is guarded by nothing but a non-empty signature, and every path of verify() to `return True` passes "
               "crypto_sign_verify_detached inside a try whose handler raises; fuse() only indexes gram numbers it has checked.")
ASSUMPTIONS = ["cryptographic soundness of the signature scheme is not decided", "exceptions outside the printed raiser table are not decided"]
MM = memo.MM
SEEDS = {(None, "gram"), (None, "grams"), (MM + ":Memoer", "rxgs"), (MM + ":Memoer", "rxgs#k"), (MM + ":Memoer", "echos"), (None, "qb64"), (None, "sig"), (None, "vid")}


class VerifyDomain(Domain):
    """state = crypto check passed on this path"""

    def initial(self):
        return False

    def on_event(self, node, state):
        if isinstance(node, ast.Call):
            name = dotted(node.func) or ""
            if name.endswith("crypto_sign_verify_detached"):
                yield True, NORMAL
                yield state, RAISE("Exception")
                return
        yield state, NORMAL


def check(run):
    ix = run.ix
    # R1 escape analysis
    esc = Escape(ix, run.lat, {}, SEEDS)
    esc.ba_seeds = {(None, "gram")}
    ents = []
    for cname in ("Memoer", "AuthMemoer"):
        c = ix.cls(MM, cname)
        ents.append((ix.method(c, "serviceAllRx"), c))
    res = esc.analyse(ents)
    for (ffq, rfq), raisers in sorted(res.items()):
        ent = "%s[%s]" % (ffq, rfq.split(":")[1])
        run.ob("C22.R1", "%s:analysed" % ent, True, "", "")
        for r in sorted([r for r in raisers if r.tainted], key=lambda r: r.key()):
            run.ob("C22.R1", "%s:escapes:%s:%s:%s" % (ent, r.kind, r.func.fq, r.construct()), False, r.site(),
                   "input-dependent %s raised by `%s` in %s is caught nowhere below serviceAllRx: a datagram makes the receive side raise (via %s)" %
                   (r.kind, r.construct(), r.func.qualname, " -> ".join(x.split(":")[1] for x in r.via[:6])))
        for r in [r for r in raisers if not r.tainted][:20]:
            run.note("not input-dependent, escapes %s: %s %s at %s" % (ent, r.kind, r.construct(), r.site()))
    run.extra["raiser_table"] = RAISER_TABLE
    run.extra["summaries"] = len(esc.visited)
    run.extra["unresolved_calls"] = dict(sorted(esc.unresolved.items(), key=lambda kv: -kv[1])[:40])
    for key in esc.visited:
        run.functions.add(key[0])
    if len(esc.visited) < 14:
        raise AnalysisError("raise/catch analysis visited only %d summaries below serviceAllRx (floor 14)" % len(esc.visited))
    # a local that some path leaves unassigned before it is read raises UnboundLocalError (a NameError: not among the dropped kinds)
    from ..names import definite_unbound_locals
    nub = 0
    for key in sorted(esc.visited):
        g = ix.functions.get(key[0])
        if g is None or g.module.name != MM:
            continue
        nub += 1
        hits = definite_unbound_locals(run, g, may=True)
        if not hits:
            run.ob("C22.R1", "%s:locals-assigned-on-every-path" % g.fq, True, run.site(g))
        for name, node in hits[:2]:
            run.ob("C22.R1", "%s:maybe-unbound:%s" % (g.fq, name), False, run.site(g, node),
                   "local `%s` is read on a path that never assigned it (UnboundLocalError is not a kind the receive side drops): "
                   "a datagram that steers the parser down that path makes serviceAllRx raise" % name)
    # fuse indexes only checked gram numbers
    fuse = ix.func(MM, "Memoer.fuse")
    idx = [n for n in walk_local(fuse.node) if isinstance(n, ast.Subscript) and dotted(n.value) == "grams" and isinstance(n.ctx, ast.Load)]
    guard = any(isinstance(n, ast.If) and n.body and isinstance(n.body[-1], ast.Return)
                and any(isinstance(c, ast.Compare) and isinstance(c.ops[0], ast.NotIn) and dotted(c.comparators[0]) == "grams" for c in ast.walk(n.test))
                for n in walk_local(fuse.node))
    run.ob("C22.R1", "%s:indexes-only-present-gram-numbers" % fuse.fq, bool(idx) and guard, run.site(fuse),
           "" if idx and guard else "fuse() indexes grams[i] for i < cnt without checking that each number is present: a gram number beyond the "
           "count makes len(grams) reach cnt and grams[i] raises KeyError")
    run.floor("C22.R1", 12)

    # R2 authentication gate
    pick = ix.func(MM, "Memoer.pick")
    flags = {t.id for n in flat(pick.node.body) if isinstance(n, ast.Assign) and isinstance(n.value, ast.Call) and is_self_call(n.value, "wiff")
             for t in n.targets if isinstance(t, ast.Name)}
    codes = {dotted(n.slice) for n in walk_local(pick.node) if isinstance(n, ast.Subscript) and dotted(n.value) == "self.Sizes"}
    top = [n for n in flat(pick.node.body) if isinstance(n, ast.If) and dotted(n.test) in flags]
    if not top or len(codes) != 1:
        run.inconclusive_at("C22.R2", run.site(pick), "pick(): encoding flag from self.wiff() / gram code indexing self.Sizes not recognised")
        return
    codev = sorted(codes)[0]
    for branch, body in (("b2", top[0].body), ("b64", top[0].orelse)) if top else ():
        gate = None
        for st in flat(body):
            if isinstance(st, ast.If) and st.body and isinstance(st.body[-1], ast.Raise):
                t = unparse(st.test)
                if "self.authic" in t and ("%s not in self.Audex" % codev) in t and isinstance(st.test, ast.BoolOp) and isinstance(st.test.op, ast.And):
                    gate = st
        sizes_use = [st for st in flat(body) if isinstance(st, ast.Assign) and ("self.Sizes[%s]" % codev) in unparse(st.value)]
        ok = gate is not None and bool(sizes_use) and gate.lineno < sizes_use[0].lineno
        kind = dotted(gate.body[-1].exc.func) if gate is not None and isinstance(gate.body[-1].exc, ast.Call) else None
        ok = ok and kind is not None and run.lat.issub(run.lat.canon(kind), "MemoerError")
        run.ob("C22.R2", "%s:auth-gate:%s" % (pick.fq, branch), ok, run.site(pick, gate) if gate is not None else run.site(pick),
               "" if ok else "in the %s branch of pick() an unsigned gram code is not rejected (raise MemoerError when self.authic and code not in self.Audex) before the gram is used" % branch)
    cm = ix.cls(MM, "Memoer")
    ok = unparse(cm.assigns.get("Audex")) == "AuthDex" if cm.assigns.get("Audex") is not None else False
    run.ob("C22.R2", "%s:Audex-is-AuthDex" % MM, ok, run.site(pick), "" if ok else "Memoer.Audex is not the AuthDex codex")
    sizes = memo.sizes_table(ix)
    for name, code in sorted(memo.codex(ix, "AuthGramCodex").items()):
        ok = sizes.get(code, {}).get("az", 0) > 0
        run.ob("C22.R2", "%s:auth-code-carries-signature:%s" % (MM, code), ok, run.site(pick), "" if ok else "authenticated gram code %s (%s) has signature size az=0: nothing is verified" % (code, name))
        run.rows += 1
    calls = [n for n in walk_local(pick.node) if isinstance(n, ast.Call) and is_self_call(n, "verify")]
    gs = []
    for c in calls:
        p = parent(c)
        while p is not None and p is not pick.node:
            if isinstance(p, ast.If):
                gs.append(unparse(p.test))
            p = parent(p)
    # the signature is the local taken from the tail of the gram (negative / conditional lower bound) and handed to verify()
    gparam = pick.params()[0][1]
    sigvars = {t.id for n in walk_local(pick.node) if isinstance(n, ast.Assign) for t in n.targets if isinstance(t, ast.Name)
               if any(isinstance(x, ast.Subscript) and dotted(x.value) == gparam and isinstance(x.slice, ast.Slice) and x.slice.upper is None
                      and isinstance(x.slice.lower, (ast.IfExp, ast.UnaryOp)) for x in ast.walk(n.value))}
    ok = len(calls) == 1 and len(gs) == 1 and gs[0] in sigvars and gs[0] in {dotted(a) for a in calls[0].args}
    run.ob("C22.R2", "%s:verify-guarded-by-sig-only" % pick.fq, ok, run.site(pick, calls[0]) if calls else run.site(pick),
           "" if ok else "self.verify(...) must be called whenever a signature is present; guards found: %s" % gs)
    ret = [n for n in walk_local(pick.node) if isinstance(n, ast.Return)]
    ok = bool(calls) and bool(ret) and all(calls[0].lineno < r.lineno for r in ret)
    run.ob("C22.R2", "%s:verify-before-return" % pick.fq, ok, run.site(pick), "" if ok else "pick() can return before the signature is verified")
    # the signer of a gram that carries no signer id is whoever signed the memo's zeroth gram (self.vids); when that is not known yet the
    # lookup must yield nothing (verify() then rejects), never a fallback identity such as the receiver's own vid
    lookups = [n for n in walk_local(pick.node) if isinstance(n, ast.Call) and isinstance(n.func, ast.Attribute) and n.func.attr == "get"
               and dotted(n.func.value) == "self.vids"]
    for i, n in enumerate(lookups):
        dflt = n.args[1] if len(n.args) > 1 else next((k.value for k in n.keywords if k.arg == "default"), None)
        ok = dflt is None or (isinstance(dflt, ast.Constant) and not dflt.value)
        run.ob("C22.R2", "%s:unknown-signer-is-nobody:%d" % (pick.fq, i), ok, run.site(pick, n),
               "" if ok else "`%s` substitutes `%s` when no gram of this memo has been accepted yet: a continuation gram signed by that identity is "
               "verified and stored before any zeroth gram named the memo's signer, and pins the memo to it" % (unparse(n), unparse(dflt)))
    ver = ix.func(MM, "Memoer.verify")
    res2 = Interp(VerifyDomain(), run.lat).run(ver.node)
    run.paths += len(res2)
    bad = [tr for (st, oc), tr in res2.items() if oc == RETURN and not st]
    run.ob("C22.R2", "%s:true-only-after-crypto-check" % ver.fq, not bad and bool(res2), run.site(ver),
           "" if not bad else "verify() can return without having passed crypto_sign_verify_detached", bad[0] if bad else None)
    handler_raises = False
    for n in walk_local(ver.node):
        if isinstance(n, ast.Try) and any((dotted(c.func) or "").endswith("crypto_sign_verify_detached") for b in n.body for c in ast.walk(b) if isinstance(c, ast.Call)):
            handler_raises = all(any(isinstance(x, ast.Raise) for x in ast.walk(h)) for h in n.handlers) and bool(n.handlers)
    run.ob("C22.R2", "%s:failed-verification-raises" % ver.fq, handler_raises, run.site(ver), "" if handler_raises else "a failing signature check is swallowed in verify()")
    run.floor("C22.R2", 11)


MUTANTS = [
    Mutant("drop-authic-test-b64", MM, "Memoer.pick", "            code = gram[:4].decode()  # assumes len(code) must be 2\n            if self.authic and code not in self.Audex:  # must be signed", "            code = gram[:4].decode()  # assumes len(code) must be 2\n            if False:", {"C22.R2"}, canary=True),
    Mutant("verify-only-if-not-authic", MM, "Memoer.pick", "        if sig:  # signature not empty when Auth code sig is never empty", "        if sig and not self.authic:", {"C22.R2"}),
    Mutant("verify-handler-pass", MM, "Memoer.verify", "            raise hioing.MemoerVerifyError(f\"Signature verification failed from {vid=}\"\n                                     f\"for {sig=} on {ser=}\") from ex", "            pass", {"C22.R2"}, canary=True),
    Mutant("reintroduce-narrow-handler", MM, "Memoer._serviceOneReceived", "except (hioing.MemoerError, KeyError, ValueError) as ex: # invalid gram so drop", "except hioing.MemoerError as ex: # invalid gram so drop", {"C22.R1"}, canary=True),
    Mutant("reintroduce-fuse-unchecked-index", MM, "Memoer.fuse", "        if len(grams) < cnt or any(i not in grams for i in range(cnt)):", "        if len(grams) < cnt:", {"C22.R1"}),
    Mutant("reintroduce-fuse-decode-escapes", MM, "Memoer._serviceOnceRxGrams", "            except ValueError as ex:  # memo body not valid utf-8 so drop memo", "            except KeyError as ex:", {"C22.R1"}),
    Mutant("reintroduce-ack-gc-unbound", MM, "Memoer.pick", "                gc = None  # not provided in ack gram\n", "                pass\n", {"C22.R1"}),
    Mutant("auth-code-no-signature", MM, "Memoer", "'bAAC': Sizage(bz=4, nz=4, mz=24,vz=44, az=88)", "'bAAC': Sizage(bz=4, nz=4, mz=24,vz=44, az=0)", {"C22.R2"}),
    Mutant("silent-nested-authic", MM, "Memoer.pick", "            if self.authic and code not in self.Audex:  # must be signed\n                raise hioing.MemoerError(f\"Unsigned gram {code =} when signed \"\n                                         f\"required.\")\n            bz, nz, mz, vz, az = self.Sizes[code]  # bz nz mz vz az\n            oz =  bz + nz + mz  + vz + az",
           "            if self.authic and (code not in self.Audex):  # must be signed\n                raise hioing.MemoerError(f\"Unsigned gram {code =} when signed \"\n                                         f\"required.\")\n            bz, nz, mz, vz, az = self.Sizes[code]  # bz nz mz vz az\n            oz =  bz + nz + mz  + vz + az", silent=True),
]
