"""Facts about the incremental HTTP parsers (C13, C15, C17)."""
import ast
import re

from .absint import Domain, Interp, NORMAL, RETURN, RAISE, is_raise
from .astutil import method_call, unparse, parent, in_subtree, is_self_call, keytext, oriented, ancestors
from .index import dotted, walk_local
from .loader import AnalysisError
from .httpx import HT, HS, HC

HEXDIGITS = set("0123456789abcdefABCDEF")


# --------------------------------------------------------------- C13.R1
class ConsumeDomain(Domain):
    """state = frozenset of facts:
       ('len>=', buf, K)  len(buf) >= K established on this path
       ('found', I)       I is a non-negative find() result (a terminator starts at I and lies wholly in the buffer)
       ('flag', V)        boolean local V known True
    Facts die when buf is consumed or K / I is rebound (augmented adds of the terminator length keep 'found')."""

    def __init__(self):
        self.consumes = []      # (node, buf, bound text, ok, state)

    def initial(self):
        return frozenset()

    def _kill_name(self, state, name):
        return frozenset(x for x in state if name not in x[1:])

    def on_store(self, target, value, state, stmt):
        if isinstance(target, ast.Name):
            if isinstance(value, tuple) and value[0] == "aug" and ("found", target.id) in state:
                return state                # index += len(eol): still inside the buffer (terminator was found there)
            return self._kill_name(state, target.id)
        return state

    def on_delete(self, target, state, stmt):
        if isinstance(target, ast.Subscript) and isinstance(target.slice, ast.Slice):
            buf = dotted(target.value)
            sl = target.slice
            if sl.lower is None and sl.upper is None:
                self.consumes.append((stmt, buf, "<all>", True, state))
            elif sl.lower is None and sl.upper is not None:
                k = unparse(sl.upper)
                ok = ("len>=", buf, k) in state or ("found", k) in state or \
                    (isinstance(sl.upper, ast.Constant) and ("len>=", buf, "1") in state) or ("nonempty", buf) in state and k == "1"
                self.consumes.append((stmt, buf, k, ok, state))
            else:
                self.consumes.append((stmt, buf, unparse(sl), False, state))
            return frozenset(x for x in state if not (x[0] in ("len>=", "nonempty") and x[1] == buf))
        if isinstance(target, ast.Subscript):
            buf = dotted(target.value)
            k = unparse(target.slice)
            ok = ("nonempty", buf) in state and k == "0"
            self.consumes.append((stmt, buf, "[%s]" % k, ok, state))
        return state

    def assume(self, test, truth, state):
        t, neg = test, False
        while isinstance(t, ast.UnaryOp) and isinstance(t.op, ast.Not):
            t, neg = t.operand, not neg
        val = truth != neg
        if isinstance(t, ast.BoolOp):
            conj = isinstance(t.op, ast.And)
            if conj == val:
                for v in t.values:
                    state = self.assume(v, val, state)
                    if state is None:
                        return None
            return state
        if isinstance(t, ast.Compare) and len(t.ops) == 1:
            # len(buf) OP K   (either operand order)
            o = oriented(t, lambda e: isinstance(e, ast.Call) and dotted(e.func) == "len" and e.args and dotted(e.args[0]) is not None)
            l, op, r = o if o else (t.left, type(t.ops[0]).__name__, t.comparators[0])
            if o:
                buf, k = dotted(l.args[0]), unparse(r)
                ge = (op == "GtE" and val) or (op == "Lt" and not val)
                if ge:
                    return state | {("len>=", buf, k)}
                if op == "Gt" and val and k == "0":
                    return state | {("nonempty", buf)}
            # I >= 0 / I < 0 / I != -1   (either operand order)
            def numconst(e):
                if isinstance(e, ast.Constant) and isinstance(e.value, (int, float)):
                    return e.value
                if isinstance(e, ast.UnaryOp) and isinstance(e.op, ast.USub) and isinstance(e.operand, ast.Constant):
                    return -e.operand.value
                return None
            o = oriented(t, lambda e: isinstance(e, ast.Name))
            if o and numconst(o[2]) is not None:
                l, op, c = o[0], o[1], numconst(o[2])
                if (op == "GtE" and c == 0 and val) or (op == "Lt" and c == 0 and not val) \
                        or (op == "NotEq" and c == -1 and val) or (op == "Eq" and c == -1 and not val) \
                        or (op == "Gt" and c == -1 and val):
                    return state | {("found", l.id)}
            return state
        d = dotted(t)
        if d and val and isinstance(t, (ast.Name, ast.Attribute)):
            return state | {("nonempty", d), ("flag", d)}
        return state


def consume_facts(run, f, buffers):
    """Every `del buf[:K]` on one of `buffers` in f is dominated by the completeness test for K."""
    dom = ConsumeDomain()
    res = Interp(dom, run.lat).run(f.node)
    run.paths += len(res)
    out = {}
    for node, buf, k, ok, st in dom.consumes:
        if buf not in buffers:
            continue
        key = "consume:%s[:%s]" % (buf, keytext(f, k))
        prev = out.get(key)
        out[key] = (ok and (prev[0] if prev else True), node)
    return [(k, ok, run.site(f, node),
             "" if ok else "`%s` removes bytes from the receive buffer on a path where no completeness test for that extent "
             "(found index >= 0 / len(buffer) >= size) has been passed: a partially received token is consumed, so the result depends on fragmentation" % unparse(node))
            for k, (ok, node) in sorted(out.items())]


# --------------------------------------------------------------- C13.R2
def selector_facts(run, f):
    """Terminator selection in parseLine / parseLeader."""
    facts = []
    loops = [n for n in walk_local(f.node) if isinstance(n, ast.For) and dotted(n.iter) == "eols"]
    if not loops:
        run.inconclusive_at("terminator-selection", run.site(f), "no loop over the admitted terminators found: selection idiom not recognised")
        return facts
    loop = loops[0]
    finds = set()
    for n in ast.walk(loop):
        if isinstance(n, ast.Assign) and isinstance(n.value, ast.Call) and isinstance(n.value.func, ast.Attribute) \
                and n.value.func.attr in ("find", "index") and isinstance(n.targets[0], ast.Name):
            finds.add(n.targets[0].id)
    chosen = set()
    for n in ast.walk(loop):
        if isinstance(n, ast.Assign) and isinstance(n.targets[0], ast.Name) and isinstance(n.value, ast.Name) and n.value.id in finds:
            chosen.add(n.targets[0].id)
    positional = False
    for n in ast.walk(loop):
        if isinstance(n, ast.Compare) and len(n.ops) == 1 and isinstance(n.ops[0], (ast.Lt, ast.LtE, ast.Gt, ast.GtE)):
            l, r = dotted(n.left), dotted(n.comparators[0])
            if l in finds | chosen and r in finds | chosen and l != r:
                positional = True
        if isinstance(n, ast.Call) and dotted(n.func) == "min":
            positional = True
    early_break = any(isinstance(n, ast.Break) for n in ast.walk(loop))
    ok = positional and not early_break
    facts.append(("selector:position-based", ok, run.site(f, loop),
                  "" if ok else "the cut index is the find() result of the first terminator *kind* found (loop breaks on the first hit, "
                  "positions are never compared): with several admitted terminators the line boundary depends on whether a later "
                  "terminator has already arrived, i.e. on fragmentation"))
    # tie: the first listed terminator must win ties (CRLF before its prefix CR): strict comparison
    # `idx < index` (new candidate strictly earlier than the chosen one), whichever operand is written first
    strict = False
    for n in ast.walk(loop):
        o = oriented(n, lambda e: dotted(e) in finds) if isinstance(n, ast.Compare) else None
        if o and o[1] == "Lt" and dotted(o[2]) in chosen:
            strict = True
    if positional:
        facts.append(("selector:first-listed-wins-ties", strict, run.site(f, loop),
                      "" if strict else "position comparison is not strict: at equal positions a later listed terminator (CR) replaces CRLF"))
    return facts


def prefix_hazard_facts(run, f, call_sites):
    """If some call site admits a terminator that is a proper prefix of another (CR vs CRLF), the function must handle a
    match at the end of the buffer: wait for more input, or remember it and drop the completing byte."""
    facts = []
    hazard = []
    for site_f, call, tup in call_sites:
        vals = [v for v in tup if isinstance(v, bytes)]
        for a in vals:
            for b in vals:
                if a != b and b.startswith(a):
                    hazard.append((site_f, call, a, b))
    if not hazard:
        facts.append(("prefix-terminator:none-admitted", True, run.site(f), ""))
        return facts
    # (a) wait: a test comparing index (+len) with len(raw) leading to `yield None`
    waits = False
    for n in walk_local(f.node):
        if isinstance(n, ast.Compare) and any(isinstance(c, ast.Call) and dotted(c.func) == "len" for c in ast.walk(n)) \
                and any(isinstance(c, ast.Name) and c.id in ("index", "idx") for c in ast.walk(n)) \
                and not any(isinstance(c, ast.Name) and c.id.startswith("MAX") for c in ast.walk(n)):
            waits = True
    # (b) skip state: a flag set under a test that mentions the chosen terminator and buffer emptiness,
    #     and a guarded deletion of one leading byte equal to the completing terminator
    flags = set()
    for n in walk_local(f.node):
        if isinstance(n, ast.If):
            names = {x.id for x in ast.walk(n.test) if isinstance(x, ast.Name)}
            if {"eol", "raw"} <= names or ({"raw"} <= names and any(isinstance(x, ast.Name) and x.id in ("CR",) for x in ast.walk(n.test))):
                for st in n.body:
                    if isinstance(st, ast.Assign) and isinstance(st.targets[0], ast.Name) and getattr(st.value, "value", None) is True:
                        flags.add(st.targets[0].id)
    drops = False
    for n in walk_local(f.node):
        if isinstance(n, ast.If) and any(isinstance(x, ast.Name) and x.id in flags for x in ast.walk(n.test)):
            for d in ast.walk(n):
                if isinstance(d, ast.Delete) and isinstance(d.targets[0], ast.Subscript) and isinstance(d.targets[0].slice, ast.Slice) \
                        and getattr(d.targets[0].slice.upper, "value", None) == 1:
                    g = parent(d)
                    while g is not None and g is not n and not isinstance(g, ast.If):
                        g = parent(g)
                    if isinstance(g, ast.If) and any(isinstance(x, ast.Name) and x.id == "LF" for x in ast.walk(g.test)):
                        drops = True
    ok = waits or (bool(flags) and drops)
    sf, call, a, b = hazard[0]
    facts.append(("prefix-terminator:handled-at-buffer-end", ok, run.site(sf, call),
                  "" if ok else "call site admits %r and its extension %r; when the buffer ends right after %r the parser emits the line and "
                  "later treats the rest of %r as another (empty) line: results differ between a whole and a split delivery" % (a, b, a, b)))
    return facts


def terminator_call_sites(run, fname):
    """[(FuncInfo, call, tuple of bytes)] for calls of httping.<fname>(..., eols=...)."""
    ix = run.ix
    consts = {}
    for m in (HT, HS, HC):
        g = ix.globals[m]
        for k in ("CRLF", "LF", "CR"):
            v = g.get(k)
            if isinstance(v, ast.Constant) and isinstance(v.value, bytes):
                consts[(m, k)] = v.value
    target = ix.func(HT, fname)
    out = []
    for fq, f in sorted(ix.functions.items()):
        if f.module.name not in (HT, HS, HC) or fq.endswith("@setter"):
            continue
        for n in walk_local(f.node):
            if isinstance(n, ast.Call) and (dotted(n.func) or "").split(".")[-1] == fname:
                e = None
                for k in n.keywords:
                    if k.arg == "eols":
                        e = k.value
                if e is None:
                    # default of the callee
                    a = target.node.args
                    pos = a.posonlyargs + a.args
                    defaults = [None] * (len(pos) - len(a.defaults)) + list(a.defaults)
                    for p, d in zip(pos, defaults):
                        if p.arg == "eols":
                            e = d
                    mod = HT
                else:
                    mod = f.module.name
                vals = []
                if isinstance(e, (ast.Tuple, ast.List)):
                    for x in e.elts:
                        if isinstance(x, ast.Constant):
                            vals.append(x.value)
                        elif isinstance(x, ast.Name):
                            vals.append(consts.get((mod, x.id), x.id))
                        else:
                            vals.append(unparse(x))
                out.append((f, n, tuple(vals)))
                run.sites += 1
    return out


# ------------------------------------------------------------------ C17
def hex_guard_facts(run, f):
    """C17.R1: every path to int(X, 16) passes a guard restricting X to hex digits."""
    ix = run.ix
    facts = []
    conv = []
    for n in walk_local(f.node):
        if isinstance(n, ast.Call) and dotted(n.func) == "int" and len(n.args) == 2 and getattr(n.args[1], "value", None) == 16:
            conv.append(n)
    if not conv:
        run.inconclusive_at("C17.R1", run.site(f), "no int(x, 16) conversion of the chunk size found: conversion idiom not recognised")
        return facts, None
    call = conv[0]
    # the variable converted (strip/decode wrappers removed)
    e = call.args[0]
    while isinstance(e, ast.Call) and isinstance(e.func, ast.Attribute) and e.func.attr in ("strip", "decode", "lstrip", "rstrip"):
        e = e.func.value
    var = dotted(e)
    guard, kind, node = _find_hex_guard(ix, f, call, var)
    ok = guard == "hex"
    what = ""
    if guard is None:
        what = ("the chunk size `%s` reaches int(.., 16) with no guard: int() also accepts a sign, '0x', underscores and whitespace, "
                "so '-5', '+5', '0x5', '1_0' are reinterpreted as some size instead of being rejected" % var)
    elif guard == "unknown":
        what = "a guard `%s` precedes the conversion but is none of the recognised hex-digit idioms" % unparse(node)
    elif guard.startswith("nonhex"):
        what = "the guard `%s` admits characters that are not hexadecimal digits: %r" % (unparse(node), guard.split(":", 1)[1])
    facts.append(("hexsize:guarded-by-hex-digit-test", ok, run.site(f, call), what))
    return facts, (guard, kind, node)


def _const_str(ix, f, e):
    if isinstance(e, ast.Constant) and isinstance(e.value, (str, bytes)):
        v = e.value
        return v.decode("latin-1") if isinstance(v, bytes) else v
    d = dotted(e)
    if d == "string.hexdigits":
        return "0123456789abcdefABCDEF"
    if d:
        r = ix.resolve_dotted(f.module.name, d)
        if isinstance(r, tuple) and r[0] == "global":
            return _const_str(ix, f, ix.globals[r[1]].get(r[2]))
    if isinstance(e, ast.Call) and dotted(e.func) in ("set", "frozenset") and e.args:
        return _const_str(ix, f, e.args[0])
    return None


def _find_hex_guard(ix, f, call, var):
    """Look for an early-exit guard (raise) before the conversion, in the same block chain, that tests `var`."""
    stmt = call
    while not isinstance(stmt, ast.stmt):
        stmt = parent(stmt)
    # climb out of a try body
    blocks = []
    enclosing_guards = []
    cur = stmt
    p = parent(cur)
    while p is not None:
        for field in ("body", "orelse", "finalbody"):
            b = getattr(p, field, None)
            if isinstance(b, list) and cur in b:
                blocks.append((b, b.index(cur)))
                # the loader nests what follows a raising guard into its else branch: that guard precedes us
                if field == "orelse" and isinstance(p, ast.If) and p.body and isinstance(p.body[-1], ast.Raise):
                    enclosing_guards.append(p)
                if field == "body" and isinstance(p, ast.If) and p.orelse and isinstance(p.orelse[-1], ast.Raise):
                    # positive form: `if <ok>: REST else: raise` is the guard `if not <ok>: raise`
                    g = ast.If(test=ast.UnaryOp(op=ast.Not(), operand=p.test), body=p.orelse, orelse=[])
                    ast.copy_location(g, p)
                    enclosing_guards.append(g)
        if p is f.node:
            break
        cur, p = p, parent(p)
    found = None
    for b, i in blocks + [(enclosing_guards, len(enclosing_guards))]:
        for prev in b[:i]:
            if isinstance(prev, ast.If) and prev.body and isinstance(prev.body[-1], ast.Raise):
                names = {dotted(x) for x in ast.walk(prev.test) if isinstance(x, ast.Name)}
                if var in names:
                    k = _classify_hex_test(ix, f, prev.test, var)
                    exc = prev.body[-1].exc
                    kind = dotted(exc.func if isinstance(exc, ast.Call) else exc) if exc is not None else None
                    if k == "hex":
                        return "hex", kind, prev
                    found = (k if k.startswith("nonhex") else "unknown", kind, prev)
    return found if found else (None, None, None)


def _classify_hex_test(ix, f, test, var):
    """Does `test` being False imply var consists of hex digits only (and is non-empty is not required here)?"""
    # any(c not in HEX for c in var)  /  not all(c in HEX for c in var)  possibly OR-ed with `not var`
    parts = test.values if isinstance(test, ast.BoolOp) and isinstance(test.op, ast.Or) else [test]
    for t in parts:
        neg = False
        while isinstance(t, ast.UnaryOp) and isinstance(t.op, ast.Not):
            t, neg = t.operand, not neg
        if isinstance(t, ast.Call) and dotted(t.func) in ("any", "all") and t.args and isinstance(t.args[0], ast.GeneratorExp):
            g = t.args[0]
            if len(g.generators) == 1 and dotted(g.generators[0].iter) == var and isinstance(g.elt, ast.Compare) and len(g.elt.ops) == 1:
                op = g.elt.ops[0]
                cs = _const_str(ix, f, g.elt.comparators[0])
                inside = isinstance(op, ast.In)
                # any(c not in HEX) true => reject ; not all(c in HEX) true => reject
                rejects_nonhex = (dotted(t.func) == "any" and not inside and not neg) or (dotted(t.func) == "all" and inside and neg)
                if rejects_nonhex and cs is not None and set(cs) and set(cs) <= HEXDIGITS:
                    return "hex"
                if rejects_nonhex and cs is not None:
                    return "nonhex:" + "".join(sorted(set(cs) - HEXDIGITS))
        if isinstance(t, ast.Call) and dotted(t.func) in ("re.fullmatch", "re.match") and len(t.args) >= 2 and neg:
            pat = _const_str(ix, f, t.args[0])
            if pat is not None and _regex_only_hex(pat, full=dotted(t.func) == "re.fullmatch"):
                return "hex"
        if isinstance(t, ast.Compare) and len(t.ops) == 1 and isinstance(t.ops[0], (ast.LtE,)) and neg:
            # not (set(var) <= HEXSET)
            l = t.left
            if isinstance(l, ast.Call) and dotted(l.func) in ("set", "frozenset") and l.args and dotted(l.args[0]) == var:
                cs = _const_str(ix, f, t.comparators[0])
                if cs is not None and set(cs) <= HEXDIGITS:
                    return "hex"
    return "unknown"


def _regex_only_hex(pat, full):
    try:
        import re._parser as sre
    except ImportError:      # pragma: no cover
        import sre_parse as sre
    try:
        tree = sre.parse(pat)
    except Exception:
        return False
    items = list(tree)
    if not full:
        if not items or str(items[-1][0]) != "AT":
            return False
        items = [i for i in items if str(i[0]) != "AT"]
    else:
        items = [i for i in items if str(i[0]) != "AT"]
    if len(items) != 1 or str(items[0][0]) not in ("MAX_REPEAT",):
        return False
    lo, hi, sub = items[0][1]
    if lo < 1:
        return False
    chars = set()
    for op, av in sub:
        if str(op) == "IN":
            for o2, a2 in av:
                if str(o2) == "LITERAL":
                    chars.add(chr(a2))
                elif str(o2) == "RANGE":
                    chars |= {chr(c) for c in range(a2[0], a2[1] + 1)}
                else:
                    return False
        elif str(op) == "LITERAL":
            chars.add(chr(av))
        else:
            return False
    return bool(chars) and chars <= HEXDIGITS


def chunk_codec_facts(run):
    """C17.R2: packChunk (writer) and parseChunk (reader) agree on radix and framing."""
    ix = run.ix
    pack, parse = ix.func(HT, "packChunk"), ix.func(HT, "parseChunk")
    facts = []
    # writer: format spec radix
    specs = []
    for n in walk_local(pack.node):
        if isinstance(n, ast.Constant) and isinstance(n.value, str):
            for m in re.finditer(r"\{[^{}]*:([^{}]*)\}", n.value):
                specs.append((m.group(1), n.value))
        if isinstance(n, ast.Call) and dotted(n.func) == "hex":
            specs.append(("x", "hex()"))
        if isinstance(n, ast.BinOp) and isinstance(n.op, ast.Mod) and isinstance(n.left, ast.Constant) and isinstance(n.left.value, (str, bytes)):
            t = n.left.value if isinstance(n.left.value, str) else n.left.value.decode("latin-1")
            for m in re.finditer(r"%[0-9]*([xXdo])", t):
                specs.append((m.group(1), t))
    radix = {"x": 16, "X": 16, "d": 10, "": 10, "o": 8, "b": 2}
    wr = {radix.get(sp[-1:] if sp else "", None) for sp, txt in specs}
    conv = [n for n in walk_local(parse.node) if isinstance(n, ast.Call) and dotted(n.func) == "int" and len(n.args) == 2]
    rd = {getattr(c.args[1], "value", None) for c in conv}
    ok = len(wr) == 1 and wr == rd and None not in wr
    facts.append(("chunk:radix-agreement", ok, run.site(pack), "" if ok else "packChunk writes the size with radix %s, parseChunk reads it with base %s" % (sorted(map(str, wr)), sorted(map(str, rd)))))
    # writer framing: size line ends with CRLF; CRLF appended after data
    wtxt = [t for sp, t in specs]
    ok = any(t.endswith("\r\n") for t in wtxt)
    facts.append(("chunk:size-line-crlf", ok, run.site(pack), "" if ok else "packChunk does not end the size line with CRLF"))
    appended = [unparse(n.args[0]) for n in sorted((c for c in walk_local(pack.node) if isinstance(c, ast.Call)), key=lambda c: (c.lineno, c.col_offset))
                if (method_call(n) or (0, 0))[1] == "append" and n.args]
    ok = len(appended) == 3 and appended[1] == pack.params()[0][0] and appended[2] in ("b'\\r\\n'", "CRLF") and "format" in appended[0]
    facts.append(("chunk:data-then-crlf", ok, run.site(pack), "" if ok else "packChunk appends %s, expected size line, the data, CRLF" % appended))
    size_of = any(isinstance(n, ast.Assign) and isinstance(n.value, ast.Call) and dotted(n.value.func) == "len"
                  and dotted(n.value.args[0]) == pack.params()[0][0] for n in walk_local(pack.node))
    facts.append(("chunk:size-is-len-of-data", size_of, run.site(pack), "" if size_of else "the written size is not len() of the data"))
    # reader framing: size line and chunk-end line both parsed with eols=(CRLF,)
    sites = [(f, c, t) for f, c, t in terminator_call_sites(run, "parseLine") if f is parse]
    ok = len(sites) == 2 and all(t == (b"\r\n",) for f, c, t in sites)
    facts.append(("chunk:reader-lines-crlf-only", ok, run.site(parse), "" if ok else "parseChunk reads its size / end lines with terminators %s" % [t for f, c, t in sites]))
    # reader: wait for size bytes, consume exactly size, then an empty line is required
    cf = consume_facts(run, parse, {"raw"})
    for k, okc, site, what in cf:
        facts.append(("chunk:" + k, okc, site, what))
    takes = [n for n in walk_local(parse.node) if isinstance(n, ast.Assign) and isinstance(n.value, ast.Subscript)
             and dotted(n.value.value) == "raw" and isinstance(n.value.slice, ast.Slice)]
    sizevars = {t.id for n in walk_local(parse.node) if isinstance(n, ast.Assign) and n.value in conv for t in n.targets if isinstance(t, ast.Name)}
    lineparsers = {n.targets[0].id for n in walk_local(parse.node) if isinstance(n, ast.Assign) and isinstance(n.targets[0], ast.Name)
                   and isinstance(n.value, ast.Call) and (dotted(n.value.func) or "").endswith("parseLine")}
    linevars = {n.targets[0].id for n in walk_local(parse.node) if isinstance(n, ast.Assign) and isinstance(n.targets[0], ast.Name)
                and isinstance(n.value, ast.Call) and dotted(n.value.func) == "next" and n.value.args and dotted(n.value.args[0]) in lineparsers}
    ok = any(n.value.slice.lower is None and dotted(n.value.slice.upper) in sizevars for n in takes)
    facts.append(("chunk:takes-exactly-size", ok, run.site(parse), "" if ok else "the chunk taken from the buffer is %s, expected raw[:size]" % [unparse(n.value) for n in takes]))
    ends = [n for n in walk_local(parse.node) if isinstance(n, ast.If) and dotted(n.test) in linevars and n.body and isinstance(n.body[-1], ast.Raise)]
    facts.append(("chunk:end-line-must-be-empty", bool(ends), run.site(parse), "" if ends else "a non-empty line after the chunk data is not rejected"))
    # last chunk goes through parseLeader for trailers
    ok = False
    for n in walk_local(parse.node):
        o = oriented(n.test, lambda e: dotted(e) in sizevars) if isinstance(n, ast.If) else None
        if isinstance(n, ast.If) and dotted(n.test) in sizevars and n.orelse:
            # `if size: <chunk data> else: <last chunk>`
            ok = ok or any(isinstance(c, ast.Call) and (dotted(c.func) or "").endswith("parseLeader") for st in n.orelse for c in ast.walk(st))
        if o and o[1] == "Eq" and getattr(o[2], "value", 1) == 0:
            ok = any(isinstance(c, ast.Call) and (dotted(c.func) or "").endswith("parseLeader") for st in n.body for c in ast.walk(st))
    facts.append(("chunk:last-chunk-trailers", ok, run.site(parse), "" if ok else "the zero-size chunk does not parse trailers with parseLeader"))
    return facts


# --------------------------------------------------------------- C13.R1b
def take_consume_facts(run, f, buffers):
    """Every take `X = buf[:K]` is followed (same block) by the consumption of exactly that extent `del buf[:K]`;
    a whole-buffer consumption `del buf[:]` is preceded by a whole-buffer take."""
    facts = []
    for n in walk_local(f.node):
        blk = None
        p = parent(n)
        for field in ("body", "orelse", "finalbody"):
            b = getattr(p, field, None)
            if isinstance(b, list) and n in b:
                blk = b
        if blk is None:
            continue
        if isinstance(n, ast.Assign) and isinstance(n.value, ast.Subscript) and dotted(n.value.value) in buffers \
                and isinstance(n.value.slice, ast.Slice) and n.value.slice.lower is None and n.value.slice.upper is not None:
            k = unparse(n.value.slice.upper)
            buf = dotted(n.value.value)
            nxt = [s for s in blk[blk.index(n) + 1:] if isinstance(s, ast.Delete) and isinstance(s.targets[0], ast.Subscript)
                   and dotted(s.targets[0].value) == buf]
            got = unparse(nxt[0].targets[0].slice) if nxt else None
            ok = got == ":" + k
            facts.append(("take-consume:%s[:%s]" % (buf, keytext(f, k)), ok, run.site(f, n),
                          "" if ok else "`%s` takes %s[:%s] but the following consumption is %s[%s]: bytes beyond (or short of) the token are removed "
                          "from the buffer, so what was already received of the next message is lost" % (unparse(n), buf, k, buf, got)))
        if isinstance(n, ast.Delete) and isinstance(n.targets[0], ast.Subscript) and dotted(n.targets[0].value) in buffers \
                and isinstance(n.targets[0].slice, ast.Slice) and n.targets[0].slice.lower is None and n.targets[0].slice.upper is None:
            buf = dotted(n.targets[0].value)
            prev = blk[:blk.index(n)]
            ok = any(("%s[:]" % buf) in unparse(s) or ("(%s)" % buf) in unparse(s) for s in prev[-2:])
            facts.append(("consume-all:%s" % buf, ok, run.site(f, n),
                          "" if ok else "`%s` empties the buffer without the whole buffer having been taken just before" % unparse(n)))
    return facts


# --------------------------------------------------------------- C13.R4
def subparser_facts(run, f):
    """A sub-parser generator that is advanced inside a wait loop (a loop containing `yield None`) must not be re-created on
    every resumption: its creation is outside that loop, or guarded by `<name> is None`."""
    facts = []
    for n in walk_local(f.node):
        if isinstance(n, ast.Assign) and isinstance(n.targets[0], ast.Name) and isinstance(n.value, ast.Call):
            callee = (dotted(n.value.func) or "").split(".")[-1]
            if not callee.startswith("parse"):
                continue
            name = n.targets[0].id
            # innermost enclosing loop of the creation
            loop = parent(n)
            guards = []
            while loop is not None and not isinstance(loop, (ast.While, ast.For)):
                if isinstance(loop, ast.If):
                    guards.append(unparse(loop.test))
                loop = parent(loop)
            if loop is None or loop is f.node:
                facts.append(("subparser:%s" % callee, True, run.site(f, n), ""))
                continue
            # does that same loop (not a nested one) wait and advance the generator?
            waits = advances = False
            stack = list(loop.body)
            while stack:
                x = stack.pop()
                if isinstance(x, (ast.While, ast.For, ast.FunctionDef, ast.Lambda)):
                    continue
                if isinstance(x, ast.Yield) and (x.value is None or getattr(x.value, "value", 0) is None):
                    waits = True
                if isinstance(x, ast.Call) and dotted(x.func) == "next" and x.args and dotted(x.args[0]) == name:
                    advances = True
                stack.extend(ast.iter_child_nodes(x))
            guarded = any(g.replace(" ", "") in ("%sisNone" % name, "not%s" % name) for g in guards)
            ok = not (waits and advances) or guarded
            facts.append(("subparser:%s" % callee, ok, run.site(f, n),
                          "" if ok else "`%s` is created inside the very loop that waits (`yield None`) and advances it: after every wait a fresh %s "
                          "is made and whatever the previous one had already consumed from the buffer is forgotten, so the result depends on where "
                          "the input was split" % (unparse(n), callee)))
    # a sub-parser created and advanced in one expression, `next(parseX(...))`, inside a waiting loop is re-created on every resumption
    for n in walk_local(f.node):
        if isinstance(n, ast.Call) and dotted(n.func) == "next" and n.args and isinstance(n.args[0], ast.Call) \
                and (dotted(n.args[0].func) or "").split(".")[-1].startswith("parse"):
            callee = (dotted(n.args[0].func) or "").split(".")[-1]
            loop = next((a for a in ancestors(n) if isinstance(a, (ast.While, ast.For))), None)
            waits = loop is not None and any(isinstance(x, ast.Yield) and (x.value is None or getattr(x.value, "value", 0) is None) for x in ast.walk(loop))
            facts.append(("subparser:%s" % callee, not waits, run.site(f, n),
                          "" if not waits else "`%s` creates a fresh %s every time the waiting loop resumes: whatever the previous one had already consumed "
                          "from the buffer (complete lines) is forgotten, so the result depends on where the input was split" % (unparse(n), callee)))
    return facts


# --------------------------------------------------------------- C13.R5
def limit_facts(run, f, buffers):
    """Error decisions must be functions of the token, not of how much else is in the buffer.  In a find-based line parser the
    position local P is -1 while no terminator is in the buffer.  A raising guard that reads len(<buffer>) is fragmentation
    invariant only in the not-found context (inside `if P < 0:`), where the buffer is a prefix of the unfinished token; once the
    terminator was found the buffer also holds whatever arrived behind it (body bytes, pipelined messages), so a guard on
    len(<buffer>) there gives a different error state for one read and for many."""
    facts = []
    posvars = {n.targets[0].id for n in walk_local(f.node) if isinstance(n, ast.Assign) and isinstance(n.targets[0], ast.Name)
               and isinstance(n.value, ast.UnaryOp) and isinstance(n.value.op, ast.USub) and getattr(n.value.operand, "value", None) == 1}

    def notfound_test(t):
        o = oriented(t, lambda e: dotted(e) in posvars)
        if o:
            c = o[2]
            if o[1] == "Lt" and getattr(c, "value", None) == 0:
                return True
            if o[1] == "Eq" and isinstance(c, ast.UnaryOp) and getattr(c.operand, "value", None) == 1:
                return True
        return False

    guards = [n for n in walk_local(f.node) if isinstance(n, ast.If) and n.body and isinstance(n.body[-1], ast.Raise)]
    if not posvars or not any(notfound_test(n.test) for n in walk_local(f.node) if isinstance(n, ast.If)):
        if any("len(%s)" % b in unparse(g.test) for g in guards for b in buffers):
            run.inconclusive_at("C13.R5", run.site(f), "raising guard on the buffer length but no `if <pos> < 0` not-found idiom recognised")
        return facts
    for g in guards:
        reads_len = any(isinstance(c, ast.Call) and dotted(c.func) == "len" and c.args and dotted(c.args[0]) in buffers for c in ast.walk(g.test))
        if not reads_len:
            continue
        ctx = "found"
        p = parent(g)
        cur = g
        while p is not None and p is not f.node:
            if isinstance(p, ast.If) and notfound_test(p.test) and any(in_subtree(g, b) for b in p.body):
                ctx = "not-found"
            cur, p = p, parent(p)
        ok = ctx == "not-found"
        facts.append(("limit-guard:%s" % ctx, ok, run.site(f, g),
                      "" if ok else "`if %s: raise ...` is evaluated after a terminator was found: the buffer length then counts bytes that follow the line "
                      "(body, pipelined messages), so the same message is rejected when it arrives in one read and accepted when it arrives in "
                      "small reads; the limit must be applied to the found position" % unparse(g.test)))
    return facts
