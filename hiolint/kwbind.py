"""E9 - keyword binding through __init__ chains that forward **kwa.

bind_keywords(ix, cls, keywords) -> {kw: ('named', defining class fq) | ('swallowed', class fq) | ('unexpected', None)}
A keyword is *named* when some __init__ along the forwarding chain declares a
parameter of that name; *swallowed* when only a terminal `__init__(self, *pa,
**kwa)` that forwards nothing receives it (hioing.Mixin); *unexpected* when the
chain ends in object.__init__ (TypeError at run time).
"""
import ast

from .index import walk_local, dotted


def _super_init_call(f):
    """The `super(...).__init__(...)` call in f, if any."""
    for n in walk_local(f.node):
        if isinstance(n, ast.Call) and isinstance(n.func, ast.Attribute) and n.func.attr == "__init__" \
                and isinstance(n.func.value, ast.Call) and dotted(n.func.value.func) == "super":
            return n
    return None


def _super_start(ix, f, call):
    """Class after which the MRO search continues: super(X, self) -> X, super() -> defining class."""
    args = call.func.value.args
    if args:
        r = ix.resolve_dotted(f.module.name, dotted(args[0]))
        from .index import ClassInfo
        if isinstance(r, ClassInfo):
            return r
    return f.cls


def bind_keywords(ix, cls, keywords):
    """keywords: iterable of names passed to cls(...)."""
    result = {}
    pending = set(keywords)
    init = ix.resolve_method(cls, "__init__")
    after = None
    chain = []
    steps = 0
    while init is not None and pending and steps < 20:
        steps += 1
        names, kwonly, vararg, kwarg = init.params()
        chain.append(init.fq)
        for k in list(pending):
            if k in names[1:] or k in kwonly:
                result[k] = ("named", init.fq)
                pending.discard(k)
        if not pending:
            break
        if kwarg is None:
            for k in pending:
                result[k] = ("unexpected", init.fq)
            pending = set()
            break
        sc = _super_init_call(init)
        forwards = sc is not None and any(k.arg is None and dotted(k.value) == kwarg for k in sc.keywords)
        if not forwards:
            for k in pending:
                result[k] = ("swallowed", init.fq)
            pending = set()
            break
        start = _super_start(ix, init, sc)
        init = ix.resolve_method(cls, "__init__", after=start)
    for k in pending:
        result[k] = ("unexpected", "object.__init__")
    return result, chain


def init_param_default(ix, cls, name):
    """(FuncInfo, default node or None) of the __init__ along the chain that names parameter `name`."""
    for k in cls.mro:
        f = k.methods.get("__init__")
        if f is None:
            continue
        a = f.node.args
        pos = a.posonlyargs + a.args
        defaults = [None] * (len(pos) - len(a.defaults)) + list(a.defaults)
        for p, d in zip(pos, defaults):
            if p.arg == name:
                return f, d
        for p, d in zip(a.kwonlyargs, a.kw_defaults):
            if p.arg == name:
                return f, d
    return None, None
