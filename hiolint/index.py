"""E2 - program index: modules, classes, functions, import resolution, MRO,
method resolution, attribute typing from constructor assignments, call
resolution with a receiver class.
"""
import ast
import os

from .loader import AnalysisError, load_modules


class FuncInfo:
    def __init__(self, module, node, cls=None, outer=None):
        self.module = module
        self.node = node
        self.cls = cls              # ClassInfo or None
        self.name = node.name
        self.outer = outer
        if cls is not None:
            self.qualname = cls.qualname + "." + node.name
        elif outer is not None:
            self.qualname = outer.qualname + ".<locals>." + node.name
        else:
            self.qualname = node.name
        self.fq = module.name + ":" + self.qualname
        self.is_async = isinstance(node, ast.AsyncFunctionDef)
        self._is_gen = None

    @property
    def is_generator(self):
        if self._is_gen is None:
            self._is_gen = any(isinstance(n, (ast.Yield, ast.YieldFrom))
                               for n in walk_local(self.node))
        return self._is_gen

    @property
    def decorators(self):
        out = []
        for d in self.node.decorator_list:
            out.append(dotted(d.func if isinstance(d, ast.Call) else d))
        return out

    @property
    def is_property(self):
        return any(d in ("property", "cached_property") or (d or "").endswith(".setter")
                   for d in self.decorators)

    @property
    def is_setter(self):
        return any((d or "").endswith(".setter") for d in self.decorators)

    def params(self):
        a = self.node.args
        names = [x.arg for x in a.posonlyargs + a.args]
        kwonly = [x.arg for x in a.kwonlyargs]
        return names, kwonly, (a.vararg.arg if a.vararg else None), (a.kwarg.arg if a.kwarg else None)

    def loc(self, node=None):
        node = node or self.node
        return "%s:%d" % (self.module.relpath, getattr(node, "lineno", 0))

    def __repr__(self):
        return "<Func %s>" % self.fq


class ClassInfo:
    def __init__(self, module, node, outer=None):
        self.module = module
        self.node = node
        self.name = node.name
        self.qualname = (outer.qualname + "." if outer else "") + node.name
        self.fq = module.name + ":" + self.qualname
        self.methods = {}       # name -> FuncInfo (getter for properties)
        self.setters = {}       # name -> FuncInfo
        self.assigns = {}       # class-level name -> value node
        self.base_exprs = list(node.bases)
        self.bases = []         # resolved ClassInfo or external dotted str
        self.mro = None

    def __repr__(self):
        return "<Class %s>" % self.fq


def dotted(node):
    """a.b.c -> 'a.b.c' ; None if not a pure dotted name."""
    parts = []
    while isinstance(node, ast.Attribute):
        parts.append(node.attr)
        node = node.value
    if isinstance(node, ast.Name):
        parts.append(node.id)
        return ".".join(reversed(parts))
    return None


def walk_local(fnode):
    """Walk the body of a function without descending into nested defs/classes/lambdas."""
    stack = list(fnode.body) if hasattr(fnode, "body") and isinstance(fnode.body, list) else [fnode]
    while stack:
        n = stack.pop()
        yield n
        if isinstance(n, (ast.FunctionDef, ast.AsyncFunctionDef, ast.ClassDef, ast.Lambda)):
            continue
        stack.extend(ast.iter_child_nodes(n))


class Index:
    def __init__(self, overlay=None, src=None):
        self.modules = load_modules(overlay, src)
        self.classes = {}     # fq -> ClassInfo
        self.functions = {}   # fq -> FuncInfo
        self.imports = {}     # module name -> {local: ('module', name) | ('from', module, attr)}
        self.globals = {}     # module name -> {name: value node}
        self.toplevel = {}    # module name -> {name: ClassInfo|FuncInfo}
        for m in self.modules.values():
            self._index_module(m)
        for c in self.classes.values():
            c.bases = [self._resolve_base(c, b) for b in c.base_exprs]
        for c in self.classes.values():
            self._mro(c)
        self._attr_types = {}
        self.receiver_table = {}   # (class fq, attr) -> [class fq...] for containers; filled by rules
        self.inlined = []
        self.inlined_sites = []
        if not os.environ.get("HIOLINT_NO_INLINE"):
            from . import inline
            self.inlined = inline.apply(self)    # expand call edges that are new relative to the frozen baseline call graph

    def expanded_helper(self, f):
        """f is a helper that did not exist in the baseline call graph and every call of it found was expanded into its caller: rules about
        "which function may do X" judge it at those call sites, not as a function of its own."""
        try:
            from . import inline
            table = inline.load_table()
        except Exception:
            return False
        if table is None or f.fq in table["calls"]:
            return False
        return any(callee == f.fq for caller, callee, line in self.inlined_sites)

    # ---------------------------------------------------------------- build
    def _index_module(self, m):
        imps = {}
        glob = {}
        top = {}
        self.imports[m.name] = imps
        self.globals[m.name] = glob
        self.toplevel[m.name] = top
        pkg = m.name if m.is_pkg else m.name.rpartition(".")[0]

        def absmod(level, mod):
            if level == 0:
                return mod
            base = pkg.split(".")
            if level > 1:
                base = base[:-(level - 1)]
            return ".".join(base + ([mod] if mod else []))

        def visit(body, cls=None, outer=None):
            for st in body:
                if isinstance(st, (ast.FunctionDef, ast.AsyncFunctionDef)):
                    fi = FuncInfo(m, st, cls=cls, outer=outer)
                    self.functions.setdefault(fi.fq, fi)
                    if cls is not None:
                        if fi.is_setter:
                            cls.setters[st.name] = fi
                            self.functions[fi.fq + "@setter"] = fi
                        elif st.name not in cls.methods or not fi.is_property:
                            cls.methods[st.name] = fi
                            self.functions[fi.fq] = fi
                    elif outer is None:
                        top[st.name] = fi
                    visit_nested(st, fi)
                elif isinstance(st, ast.ClassDef):
                    ci = ClassInfo(m, st, outer=cls)
                    self.classes[ci.fq] = ci
                    if cls is None and outer is None:
                        top[st.name] = ci
                    visit(st.body, cls=ci)
                elif isinstance(st, (ast.Import, ast.ImportFrom)) and cls is None:
                    self._imports(st, imps, absmod)
                elif isinstance(st, ast.Assign):
                    for t in st.targets:
                        if isinstance(t, ast.Name):
                            (cls.assigns if cls is not None else glob)[t.id] = st.value
                elif isinstance(st, ast.AnnAssign) and isinstance(st.target, ast.Name):
                    (cls.assigns if cls is not None else glob)[st.target.id] = st.value if st.value is not None else st.annotation
                elif isinstance(st, (ast.If, ast.Try)) and cls is None and outer is None:
                    for sub in ast.iter_child_nodes(st):
                        if isinstance(sub, ast.stmt):
                            visit([sub])
                        elif isinstance(sub, ast.ExceptHandler):
                            visit(sub.body)

        def visit_nested(fnode, fi):
            for n in walk_local(fnode):
                if isinstance(n, (ast.FunctionDef, ast.AsyncFunctionDef)):
                    sub = FuncInfo(m, n, outer=fi)
                    self.functions.setdefault(sub.fq, sub)
                    visit_nested(n, sub)
                elif isinstance(n, (ast.Import, ast.ImportFrom)):
                    self._imports(n, imps.setdefault("<local:%s>" % fi.fq, {}), absmod)

        visit(m.tree.body)

    def _imports(self, st, imps, absmod):
        if isinstance(st, ast.Import):
            for a in st.names:
                if a.asname:
                    imps[a.asname] = ("module", a.name)
                else:
                    head = a.name.split(".")[0]
                    imps[head] = ("module", head)
        else:
            mod = absmod(st.level, st.module)
            for a in st.names:
                imps[a.asname or a.name] = ("from", mod, a.name)

    # ------------------------------------------------------------- resolve
    def resolve_symbol(self, modname, name, _seen=None):
        """Resolve a top-level name visible in module -> ClassInfo | FuncInfo |
        ('module', name) | ('external', dotted) | ('global', modname, name) | None"""
        _seen = _seen or set()
        if (modname, name) in _seen:
            return None
        _seen.add((modname, name))
        if modname not in self.modules:
            return ("external", modname + "." + name)
        top = self.toplevel[modname]
        if name in top:
            return top[name]
        imp = self.imports[modname].get(name)
        if imp:
            if imp[0] == "module":
                return ("module", imp[1]) if imp[1] in self.modules else ("external", imp[1])
            _, mod, attr = imp
            sub = (mod + "." + attr) if mod else attr
            if sub in self.modules:
                return ("module", sub)
            if mod in self.modules:
                return self.resolve_symbol(mod, attr, _seen)
            return ("external", sub)
        if name in self.globals[modname]:
            return ("global", modname, name)
        # lazy package __getattr__ re-exports (hio.base)
        if modname == "hio.base":
            for sub in ("during", "multidoing"):
                sm = "hio.base." + sub
                if name == sub:
                    return ("module", sm)
                if sm in self.modules and name in self.toplevel[sm]:
                    return self.toplevel[sm][name]
        return None

    def resolve_dotted(self, modname, dot, local_imports=None):
        """Resolve 'a.b.C' as seen from module."""
        if dot is None:
            return None
        parts = dot.split(".")
        cur = None
        if local_imports and parts[0] in local_imports:
            imp = local_imports[parts[0]]
            if imp[0] == "module":
                cur = ("module", imp[1]) if imp[1] in self.modules else ("external", imp[1])
            else:
                sub = imp[1] + "." + imp[2]
                cur = ("module", sub) if sub in self.modules else (
                    self.resolve_symbol(imp[1], imp[2]) if imp[1] in self.modules else ("external", sub))
        else:
            cur = self.resolve_symbol(modname, parts[0])
        for p in parts[1:]:
            if cur is None:
                return None
            if isinstance(cur, tuple) and cur[0] == "module":
                sub = cur[1] + "." + p
                if sub in self.modules and p not in self.toplevel[cur[1]] and p not in self.imports[cur[1]]:
                    cur = ("module", sub)
                else:
                    cur = self.resolve_symbol(cur[1], p)
                    if cur is None and sub in self.modules:
                        cur = ("module", sub)
            elif isinstance(cur, tuple) and cur[0] == "external":
                cur = ("external", cur[1] + "." + p)
            elif isinstance(cur, ClassInfo):
                nxt = self.resolve_method(cur, p)
                if nxt is None:
                    val = self.class_assign(cur, p)
                    return ("classattr", cur, p, val) if val is not None else None
                cur = nxt
            else:
                return None
        return cur

    def _resolve_base(self, c, bexpr):
        d = dotted(bexpr)
        r = self.resolve_dotted(c.module.name, d) if d else None
        if isinstance(r, ClassInfo):
            return r
        if isinstance(r, tuple) and r[0] == "external":
            return r[1]
        return d or ast.dump(bexpr)

    def _mro(self, c, _stack=()):
        if c.mro is not None:
            return c.mro
        if c in _stack:
            raise AnalysisError("cyclic bases at %s" % c.fq)
        seqs = []
        for b in c.bases:
            if isinstance(b, ClassInfo):
                seqs.append(list(self._mro(b, _stack + (c,))))
        seqs.append([b for b in c.bases if isinstance(b, ClassInfo)])
        res = [c]
        seqs = [s for s in seqs if s]
        while seqs:
            for s in seqs:
                cand = s[0]
                if not any(cand in t[1:] for t in seqs):
                    break
            else:
                raise AnalysisError("inconsistent MRO for %s" % c.fq)
            res.append(cand)
            seqs = [[x for x in s if x is not cand] for s in seqs]
            seqs = [s for s in seqs if s]
        c.mro = res
        return res

    def external_bases(self, c):
        out = []
        for k in c.mro:
            for b in k.bases:
                if not isinstance(b, ClassInfo):
                    out.append(b)
        return out

    def resolve_method(self, cls, name, after=None):
        mro = cls.mro
        if after is not None:
            if after not in mro:
                return None
            mro = mro[mro.index(after) + 1:]
        for k in mro:
            if name in k.methods:
                return k.methods[name]
        return None

    def resolve_setter(self, cls, name):
        for k in cls.mro:
            if name in k.setters:
                return k.setters[name]
        return None

    def class_assign(self, cls, name):
        for k in cls.mro:
            if name in k.assigns:
                return k.assigns[name]
        return None

    def is_subclass(self, cls, other):
        return other in cls.mro

    def subclasses(self, cls):
        return [c for c in self.classes.values() if cls in c.mro]

    # ------------------------------------------------------------ lookups
    def module(self, name):
        m = self.modules.get(name)
        if m is None:
            raise AnalysisError("anchor module vanished: %s" % name)
        return m

    def cls(self, modname, qual):
        c = self.classes.get(modname + ":" + qual)
        if c is None:
            raise AnalysisError("anchor class vanished: %s:%s" % (modname, qual))
        return c

    def func(self, modname, qual):
        f = self.functions.get(modname + ":" + qual)
        if f is None:
            raise AnalysisError("anchor function vanished: %s:%s" % (modname, qual))
        return f

    def has_func(self, modname, qual):
        return (modname + ":" + qual) in self.functions

    def method(self, cls, name):
        f = self.resolve_method(cls, name)
        if f is None:
            raise AnalysisError("anchor method vanished: %s.%s" % (cls.fq, name))
        return f

    # ---------------------------------------------------- attribute typing
    def attr_types(self, cls):
        """{attr: set(ClassInfo)} from `self.attr = K(...)` stores along the MRO."""
        if cls in self._attr_types:
            return self._attr_types[cls]
        out = {}
        self._attr_types[cls] = out
        for k in cls.mro:
            for f in list(k.methods.values()) + list(k.setters.values()):
                for n in walk_local(f.node):
                    if isinstance(n, ast.Assign) and isinstance(n.value, (ast.Call, ast.IfExp, ast.BoolOp)):
                        for t in n.targets:
                            if (isinstance(t, ast.Attribute) and isinstance(t.value, ast.Name)
                                    and t.value.id == "self"):
                                for ty in self._value_classes(f, n.value):
                                    out.setdefault(t.attr, set()).add(ty)
        return out

    def _value_classes(self, f, value):
        vals = []
        if isinstance(value, ast.IfExp):
            vals = [value.body, value.orelse]
        elif isinstance(value, ast.BoolOp):
            vals = value.values
        else:
            vals = [value]
        out = []
        for v in vals:
            if isinstance(v, ast.Call):
                r = self.resolve_dotted(f.module.name, dotted(v.func),
                                        self.imports[f.module.name].get("<local:%s>" % f.fq))
                if isinstance(r, ClassInfo):
                    out.append(r)
        return out

    def local_types(self, f):
        """{local name: set(ClassInfo)} from `x = K(...)` in function f (flow-insensitive)."""
        out = {}
        for n in walk_local(f.node):
            if isinstance(n, ast.Assign) and isinstance(n.value, (ast.Call, ast.IfExp, ast.BoolOp)):
                for t in n.targets:
                    if isinstance(t, ast.Name):
                        for ty in self._value_classes(f, n.value):
                            out.setdefault(t.id, set()).add(ty)
            elif isinstance(n, (ast.With, ast.AsyncWith)):
                for it in n.items:
                    if isinstance(it.optional_vars, ast.Name) and isinstance(it.context_expr, ast.Call):
                        for ty in self._value_classes(f, it.context_expr):
                            out.setdefault(it.optional_vars.id, set()).add(ty)
        return out

    # ------------------------------------------------------ call resolution
    def expr_classes(self, f, recv, expr, locals_=None):
        """Possible repo classes of the value of expr inside f with receiver class recv."""
        if isinstance(expr, ast.Name):
            if expr.id == "self" and recv is not None:
                return {recv}
            if expr.id == "cls" and recv is not None:
                return {recv}
            if locals_ is None:
                locals_ = self.local_types(f)
            if expr.id in locals_:
                return set(locals_[expr.id])
            key = (f.fq, expr.id)
            if key in self.receiver_table:
                return {self.classes[c] for c in self.receiver_table[key] if c in self.classes}
            return set()
        if isinstance(expr, ast.Attribute):
            owners = self.expr_classes(f, recv, expr.value, locals_)
            out = set()
            for o in owners:
                at = self.attr_types(o)
                out |= at.get(expr.attr, set())
                for k in o.mro:
                    key = (k.fq, expr.attr)
                    if key in self.receiver_table:
                        out |= {self.classes[c] for c in self.receiver_table[key] if c in self.classes}
                # property returning attribute of known type: follow `return self._x`
                m = self.resolve_method(o, expr.attr)
                if m is not None and m.is_property:
                    for n in walk_local(m.node):
                        if isinstance(n, ast.Return) and n.value is not None:
                            out |= self.expr_classes(m, o, n.value)
            return out
        if isinstance(expr, ast.Call):
            r = self.resolve_dotted(f.module.name, dotted(expr.func),
                                    self.imports[f.module.name].get("<local:%s>" % f.fq))
            if isinstance(r, ClassInfo):
                return {r}
            if (isinstance(expr.func, ast.Name) and expr.func.id == "super"):
                return set()
        if isinstance(expr, ast.Subscript):
            # container element typing through the receiver table: self.ixes[ca]
            d = expr.value
            if isinstance(d, ast.Attribute):
                owners = self.expr_classes(f, recv, d.value, locals_)
                out = set()
                for o in owners:
                    for k in o.mro:
                        key = (k.fq, d.attr + "[]")
                        if key in self.receiver_table:
                            out |= {self.classes[c] for c in self.receiver_table[key] if c in self.classes}
                return out
        return set()

    def resolve_call(self, f, recv, call, locals_=None):
        """Return list of (FuncInfo, receiver ClassInfo|None) possible callees
        of ast.Call inside function f executed with receiver class recv.
        Unresolvable -> []."""
        fn = call.func
        limps = self.imports[f.module.name].get("<local:%s>" % f.fq)
        # super().m(...)
        if (isinstance(fn, ast.Attribute) and isinstance(fn.value, ast.Call)
                and isinstance(fn.value.func, ast.Name) and fn.value.func.id == "super"):
            if recv is None or f.cls is None:
                return []
            m = self.resolve_method(recv, fn.attr, after=f.cls)
            return [(m, recv)] if m else []
        if isinstance(fn, ast.Attribute):
            owners = self.expr_classes(f, recv, fn.value, locals_)
            out = []
            for o in sorted(owners, key=lambda c: c.fq):
                m = self.resolve_method(o, fn.attr)
                if m is not None:
                    out.append((m, o))
            if out:
                return out
            d = dotted(fn)
            r = self.resolve_dotted(f.module.name, d, limps) if d else None
            if isinstance(r, FuncInfo):
                return [(r, r.cls)]
            if isinstance(r, ClassInfo):
                init = self.resolve_method(r, "__init__")
                return [(init, r)] if init else []
            return []
        if isinstance(fn, ast.Name):
            # nested function of f
            nested = self.functions.get(f.module.name + ":" + f.qualname + ".<locals>." + fn.id)
            if nested is not None:
                return [(nested, recv)]
            r = self.resolve_dotted(f.module.name, fn.id, limps)
            if isinstance(r, FuncInfo):
                return [(r, None)]
            if isinstance(r, ClassInfo):
                init = self.resolve_method(r, "__init__")
                return [(init, r)] if init else []
        return []

    def callee_class(self, f, call):
        """Repo class constructed by this call, if any."""
        r = self.resolve_dotted(f.module.name, dotted(call.func),
                                self.imports[f.module.name].get("<local:%s>" % f.fq))
        return r if isinstance(r, ClassInfo) else None
