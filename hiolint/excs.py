"""Exception lattice: builtin hierarchy (from the interpreter's own builtins --
not from the code under analysis), stdlib aliases, and repo classes read from
their `class X(Base)` headers."""
import builtins

ALIASES = {
    "socket.error": "OSError", "socket.timeout": "TimeoutError", "IOError": "OSError",
    "EnvironmentError": "OSError", "select.error": "OSError",
    "ssl.SSLError": "SSLError", "ssl.SSLEOFError": "SSLEOFError",
    "ssl.SSLWantReadError": "SSLWantReadError", "ssl.SSLWantWriteError": "SSLWantWriteError",
    "ssl.SSLZeroReturnError": "SSLZeroReturnError", "ssl.SSLSyscallError": "SSLSyscallError",
    "ssl.CertificateError": "SSLCertVerificationError",
    "ssl.SSLCertVerificationError": "SSLCertVerificationError",
    "binascii.Error": "binascii.Error", "json.JSONDecodeError": "JSONDecodeError",
    "json.decoder.JSONDecodeError": "JSONDecodeError",
    "lmdb.Error": "lmdb.Error", "lmdb.BadValsizeError": "lmdb.BadValsizeError",
    "lmdb.KeyExistsError": "lmdb.KeyExistsError", "lmdb.MapFullError": "lmdb.MapFullError",
    "asyncio.CancelledError": "CancelledError",
}

EXTRA_PARENTS = {
    "SSLError": "OSError", "SSLEOFError": "SSLError", "SSLWantReadError": "SSLError",
    "SSLWantWriteError": "SSLError", "SSLZeroReturnError": "SSLError",
    "SSLSyscallError": "SSLError", "SSLCertVerificationError": "SSLError",
    "binascii.Error": "ValueError", "JSONDecodeError": "ValueError",
    "lmdb.Error": "Exception", "lmdb.BadValsizeError": "lmdb.Error",
    "lmdb.KeyExistsError": "lmdb.Error", "lmdb.MapFullError": "lmdb.Error",
    "CancelledError": "BaseException",
    "CBORDecodeError": "ValueError", "msgpack.UnpackException": "Exception",
}


class Lattice:
    def __init__(self, index=None):
        self.parent = {}
        for name in dir(builtins):
            obj = getattr(builtins, name)
            if isinstance(obj, type) and issubclass(obj, BaseException):
                if obj.__name__ != name:     # alias such as IOError
                    continue
                base = obj.__mro__[1] if len(obj.__mro__) > 1 else None
                self.parent[name] = base.__name__ if base not in (None, object) else None
        self.parent.update(EXTRA_PARENTS)
        self.repo = {}
        if index is not None:
            for c in index.classes.values():
                anc = self._repo_parent(index, c)
                if anc is not None:
                    self.repo[c.name] = c
                    self.parent[c.name] = anc

    def _repo_parent(self, index, c, depth=0):
        from .index import ClassInfo
        if depth > 10:
            return None
        for b in c.bases:
            if isinstance(b, ClassInfo):
                if self._repo_parent(index, b, depth + 1) is not None:
                    return b.name
            else:
                n = self.canon(b)
                if n in self.parent:
                    return n
        return None

    def canon(self, name):
        if name is None:
            return None
        if name in ALIASES:
            return ALIASES[name]
        if name in self.parent:
            return name
        tail = name.rpartition(".")[2]
        if tail in self.parent:
            return tail
        return name

    def known(self, name):
        return self.canon(name) in self.parent

    def ancestors(self, name):
        name = self.canon(name)
        out = [name]
        seen = {name}
        while name in self.parent and self.parent[name] is not None:
            name = self.parent[name]
            if name in seen:
                break
            seen.add(name)
            out.append(name)
        return out

    def issub(self, a, b):
        """a is b or a subclass of b."""
        b = self.canon(b)
        return b in self.ancestors(a)

    def catches(self, handler_types, kind):
        """'yes' / 'maybe:<narrowed kind>' / 'no' for raising `kind` (meaning: some
        exception that is an instance of kind) into a handler for handler_types
        (None = bare except)."""
        if handler_types is None:
            return "yes", kind
        for h in handler_types:
            if self.issub(kind, h):
                return "yes", kind
        for h in handler_types:
            if self.issub(h, kind):
                return "maybe", self.canon(h)
        return "no", kind
