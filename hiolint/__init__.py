"""hiolint - repository-specific static analysis of ioflo/hio (see /verif/DESIGN.md)."""
