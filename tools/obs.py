#!/usr/bin/env python3
"""List the obligations a check produces (debug aid): tools/obs.py C11 [repo]"""
import importlib
import os
import sys
sys.path.insert(0, os.path.dirname(os.path.dirname(os.path.abspath(__file__))))
if len(sys.argv) > 2:
    os.environ["HIOLINT_REPO"] = sys.argv[2]
from hiolint import core  # noqa: E402
p = sys.argv[1]
mod = importlib.import_module("hiolint.props." + p.lower())
run = core.Run(p, "quick")
try:
    mod.check(run)
except Exception as ex:  # noqa
    print("EXC", type(ex).__name__, ex)
for o in run.obs:
    print("%s\t%s\t%s\t%s" % ("ok " if o.ok else "BAD", o.rule, o.key, "" if o.ok else o.what[:200].replace("\n", " ")))
