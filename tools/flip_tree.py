#!/usr/bin/env python3
"""Robustness harness (not a registered check): behaviour-preserving rewrites of a scratch copy.
  --compares : `a < b` -> `b > a` (and <=, >, >=, ==, !=) when both operands are names, constants or len(name): no evaluation-order effect
  --branches : `if c: A else: B` -> `if not c: B else: A` for plain if/else with both branches present (no elif)
usage: flip_tree.py <tree>/src/hio [--compares] [--branches]"""
import ast
import pathlib
import sys

FLIP = {ast.Lt: ast.Gt, ast.Gt: ast.Lt, ast.LtE: ast.GtE, ast.GtE: ast.LtE, ast.Eq: ast.Eq, ast.NotEq: ast.NotEq}


def pure(e):
    if isinstance(e, (ast.Name, ast.Constant)):
        return True
    if isinstance(e, ast.UnaryOp) and isinstance(e.op, ast.USub) and isinstance(e.operand, ast.Constant):
        return True
    if isinstance(e, ast.Call) and isinstance(e.func, ast.Name) and e.func.id == "len" and len(e.args) == 1 and isinstance(e.args[0], ast.Name):
        return True
    return False


class T(ast.NodeTransformer):
    def __init__(self, compares, branches):
        self.compares, self.branches = compares, branches
        self.n = 0

    def visit_Compare(self, node):
        self.generic_visit(node)
        if self.compares and len(node.ops) == 1 and type(node.ops[0]) in FLIP and pure(node.left) and pure(node.comparators[0]) \
                and not (isinstance(node.left, ast.Constant) and isinstance(node.comparators[0], ast.Constant)):
            self.n += 1
            return ast.copy_location(ast.Compare(left=node.comparators[0], ops=[FLIP[type(node.ops[0])]()], comparators=[node.left]), node)
        return node

    def visit_If(self, node):
        self.generic_visit(node)
        if self.branches and node.orelse and not (len(node.orelse) == 1 and isinstance(node.orelse[0], ast.If)):
            self.n += 1
            test = node.test.operand if isinstance(node.test, ast.UnaryOp) and isinstance(node.test.op, ast.Not) else ast.UnaryOp(op=ast.Not(), operand=node.test)
            return ast.copy_location(ast.If(test=test, body=node.orelse, orelse=node.body), node)
        return node


def main():
    root = pathlib.Path(sys.argv[1])
    t = T("--compares" in sys.argv, "--branches" in sys.argv)
    for p in sorted(root.rglob("*.py")):
        tree = t.visit(ast.parse(p.read_text()))
        p.write_text(ast.unparse(ast.fix_missing_locations(tree)) + "\n")
    print("rewrote %d constructs" % t.n)


if __name__ == "__main__":
    main()
