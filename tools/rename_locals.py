#!/usr/bin/env python3
"""Robustness harness (not a registered check): rewrite a scratch copy of hio so that every
function-local variable is renamed (suffix `_q`), leaving behaviour unchanged.  The checks must
give the same verdicts on the rewritten tree: rules must follow bindings, not spellings.

usage: rename_locals.py <tree>/src/hio [--suffix _q]
"""
import ast
import pathlib
import sys


def scope_locals(fn):
    """names bound by plain Name stores directly in fn's scope (not nested scopes)"""
    bound, banned = set(), set()
    params = {a.arg for a in fn.args.posonlyargs + fn.args.args + fn.args.kwonlyargs}
    if fn.args.vararg:
        params.add(fn.args.vararg.arg)
    if fn.args.kwarg:
        params.add(fn.args.kwarg.arg)

    def visit(n, top):
        for c in ast.iter_child_nodes(n):
            if isinstance(c, (ast.FunctionDef, ast.AsyncFunctionDef, ast.Lambda, ast.ClassDef)):
                # anything bound inside a nested scope is left alone everywhere
                for m in ast.walk(c):
                    if isinstance(m, ast.Name) and isinstance(m.ctx, (ast.Store, ast.Del)):
                        banned.add(m.id)
                    if isinstance(m, ast.arg):
                        banned.add(m.arg)
                    if isinstance(m, (ast.FunctionDef, ast.AsyncFunctionDef, ast.ClassDef)):
                        banned.add(m.name)
                if isinstance(c, (ast.FunctionDef, ast.AsyncFunctionDef, ast.ClassDef)):
                    banned.add(c.name)
                continue
            if isinstance(c, (ast.ListComp, ast.SetComp, ast.DictComp, ast.GeneratorExp)):
                for g in c.generators:
                    for m in ast.walk(g.target):
                        if isinstance(m, ast.Name):
                            banned.add(m.id)
                visit(c, False)
                continue
            if isinstance(c, (ast.Global, ast.Nonlocal)):
                banned.update(c.names)
            if isinstance(c, ast.ExceptHandler) and c.name:
                banned.add(c.name)
            if isinstance(c, (ast.Import, ast.ImportFrom)):
                for a in c.names:
                    banned.add((a.asname or a.name).split(".")[0])
            if isinstance(c, ast.Name) and isinstance(c.ctx, (ast.Store, ast.Del)):
                bound.add(c.id)
            if isinstance(c, ast.Call) and isinstance(c.func, ast.Name) and c.func.id in ("locals", "vars", "eval", "exec"):
                banned.add("*")
            if isinstance(c, (ast.MatchAs, ast.MatchStar)) and c.name:
                banned.add(c.name)
            visit(c, False)
    visit(fn, True)
    if "*" in banned:
        return set()
    return bound - banned - params


HALF = None      # 0/1: rename only functions whose crc32(qualname) has that parity (breaks sibling symmetry)
ONLY = None      # set of qualified names ("Class.method" / "function") to restrict the renaming to


def rewrite(path, suffix):
    src = path.read_text()
    tree = ast.parse(src)
    lines = src.split("\n")
    edits = []   # (line, col, oldlen, new)
    count = 0

    def top_functions(n, inside_fn):
        for c in ast.iter_child_nodes(n):
            if isinstance(c, (ast.FunctionDef, ast.AsyncFunctionDef)):
                if not inside_fn:
                    yield c
                continue
            yield from top_functions(c, inside_fn)

    quals = {}
    for cls in [n for n in ast.walk(tree) if isinstance(n, ast.ClassDef)]:
        for m in cls.body:
            if isinstance(m, (ast.FunctionDef, ast.AsyncFunctionDef)):
                quals[id(m)] = cls.name + "." + m.name
    for fn in top_functions(tree, False):
        if ONLY is not None and quals.get(id(fn), fn.name) not in ONLY:
            continue
        if HALF is not None:
            import zlib
            if zlib.crc32(quals.get(id(fn), fn.name).encode()) % 2 != HALF:
                continue
        names = scope_locals(fn)
        if not names:
            continue
        count += 1
        for m in ast.walk(fn):
            if isinstance(m, ast.Name) and m.id in names:
                edits.append((m.lineno, m.col_offset, m.id))
    # column offsets are utf8 byte offsets
    for ln, col, name in sorted(set(edits), reverse=True):
        raw = lines[ln - 1].encode("utf8")
        if raw[col:col + len(name)].decode("utf8", "replace") != name:
            raise SystemExit("offset mismatch %s:%d:%d %r" % (path, ln, col, name))
        raw = raw[:col] + (name + suffix).encode() + raw[col + len(name):]
        lines[ln - 1] = raw.decode("utf8")
    out = "\n".join(lines)
    ast.parse(out)
    path.write_text(out)
    return count, len(set(edits))


def main():
    root = pathlib.Path(sys.argv[1])
    suffix = sys.argv[sys.argv.index("--suffix") + 1] if "--suffix" in sys.argv else "_q"
    global ONLY, HALF
    if "--half" in sys.argv:
        HALF = int(sys.argv[sys.argv.index("--half") + 1])
    if "--only" in sys.argv:
        ONLY = set(sys.argv[sys.argv.index("--only") + 1].split(","))
    tf = te = 0
    for p in sorted(root.rglob("*.py")):
        if "demo" in p.parts:
            continue
        f, e = rewrite(p, suffix)
        tf += f
        te += e
    print("renamed locals in %d functions, %d name occurrences" % (tf, te))


if __name__ == "__main__":
    main()
