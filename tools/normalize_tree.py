#!/usr/bin/env python3
"""Robustness harness (not a registered check): rewrite every module of a scratch copy with ast.unparse - comments gone,
layout, quoting and parenthesisation normalised, behaviour unchanged.  usage: normalize_tree.py <tree>/src/hio"""
import ast
import pathlib
import sys
n = 0
for p in sorted(pathlib.Path(sys.argv[1]).rglob("*.py")):
    src = p.read_text()
    p.write_text(ast.unparse(ast.parse(src)) + "\n")
    n += 1
print("normalised %d modules" % n)
