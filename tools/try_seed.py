#!/usr/bin/env python3
"""Run every built check against a scratch worktree of /repo HEAD with a seeded patch applied.
usage: tools/try_seed.py <patch.diff> [...]      (scratch worktree: /tmp/seedtest, evidence: /tmp/seedtest.evid)
Prints, per patch, which checks reported VIOLATION / ANALYSIS-ERROR."""
import glob
import os
import subprocess
import sys

VERIF = os.path.dirname(os.path.dirname(os.path.abspath(__file__)))
WT = "/tmp/seedtest"


def sh(*a, **k):
    try:
        return subprocess.run(a, capture_output=True, text=True, timeout=600, **k)
    except subprocess.TimeoutExpired:
        return subprocess.CompletedProcess(a, 2, "ANALYSIS-ERROR timeout", "")


def main(patches):
    if not os.path.isdir(WT):
        sh("git", "-C", "/repo", "worktree", "add", "-q", "--detach", WT, "HEAD")
    head = sh("git", "-C", "/repo", "rev-parse", "HEAD").stdout.strip()
    checks = sorted(os.path.basename(p)[:-3].upper() for p in glob.glob(os.path.join(VERIF, "hiolint/props/c*.py")))
    for patch in patches:
        patch = os.path.abspath(patch)
        sh("git", "-C", WT, "checkout", "-q", "--detach", head)
        sh("git", "-C", WT, "reset", "-q", "--hard", head)
        r = sh("git", "-C", WT, "apply", patch)
        if r.returncode:
            r = sh("git", "-C", WT, "apply", "--3way", patch)
        if r.returncode:
            print("%s: PATCH DOES NOT APPLY: %s" % (patch, r.stderr.strip()[:200]))
            continue
        env = dict(os.environ, HIOLINT_REPO=WT, HIOLINT_EVID="/tmp/seedtest.evid", HIOLINT_JOBS="1")
        hits = []
        from concurrent.futures import ThreadPoolExecutor
        with ThreadPoolExecutor(16) as ex:
            results = list(ex.map(lambda c: (c, sh(os.path.join(VERIF, "check"), c, env=env, cwd=VERIF)), checks))
        for c, r in results:
            if r.returncode == 1:
                first = [l for l in r.stdout.splitlines() if l.startswith("src/")][:2]
                hits.append("%s VIOLATION x%d: %s" % (c, r.stdout.count("VIOLATION property"), " | ".join(x[:230] for x in first)))
            elif r.returncode == 2:
                hits.append("%s ANALYSIS-ERROR: %s" % (c, [l for l in r.stdout.splitlines() if "ANALYSIS-ERROR" in l][:1]))
        print("== %s" % patch)
        for h in hits:
            print("   " + h)
        if not hits:
            print("   (no check fired)")
        sh("git", "-C", WT, "reset", "-q", "--hard", head)
        sh("git", "-C", WT, "clean", "-fdq")


if __name__ == "__main__":
    main(sys.argv[1:])
