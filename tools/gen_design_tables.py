#!/usr/bin/env python3
"""Refresh the generated tables of DESIGN.md section 11 (11.4 repairs, 11.5 known findings, 11.6 seeds) between the
markers <!-- GEN:x --> ... <!-- /GEN:x -->."""
import glob
import json
import os
import re
import subprocess

HERE = os.path.dirname(os.path.dirname(os.path.abspath(__file__)))


def main():
    p = os.path.join(HERE, "DESIGN.md")
    s = open(p).read()
    fixes = subprocess.check_output(["git", "-C", "/repo", "log", "--reverse", "--format=%h|%s", "c917f5b..HEAD"]).decode().strip().splitlines()
    t1 = ["| commit | what |", "|---|---|"] + ["| %s | %s |" % (f.split("|", 1)[0], f.split("|", 1)[1].replace("fix: ", "")) for f in fixes]
    known = json.load(open(os.path.join(HERE, "known_findings.json")))["findings"]
    t2 = ["| property | key | what fails |", "|---|---|---|"] + ["| %s | `%s` | %s |" % (k["property"], k["key"][:90], k["what"][:330]) for k in known if k["status"] == "known"]
    t3 = ["| seed | first | now | change |", "|---|---|---|---|"]
    for d in sorted(glob.glob(os.path.join(HERE, "seeded/*/meta.json"))):
        m = json.load(open(d))
        first = m.get("checks_fired_when_first_confirmed", sorted(m.get("checks_fired", {})))
        t3.append("| %s | %s | %s | %s |" % (m["name"], ",".join(first) or "—", ",".join(sorted(m.get("checks_fired", {}))) or "—",
                                             (m.get("summary") or m.get("needs") or "").replace("|", "/").replace("\n", " ")[:170]))
    t4 = ["| refactoring | checks silent | alarms (false alarms of the machinery) | change |", "|---|---|---|---|"]
    for d in sorted(glob.glob(os.path.join(HERE, "refactors/*/meta.json"))):
        m = json.load(open(d))
        al = sorted(set(m.get("checks_fired", {})) | set("%s(inconclusive)" % k for k in m.get("checks_analysis_error", {})))
        t4.append("| %s | %s | %s | %s |" % (m["name"], "yes" if m.get("silent") else "no", ",".join(al) or "—",
                                             (m.get("summary") or "").replace("|", "/").replace("\n", " ")[:170]))
    for tag, rows in (("fixes", t1), ("known", t2), ("seeds", t3), ("refactors", t4)):
        block = "<!-- GEN:%s -->\n%s\n<!-- /GEN:%s -->" % (tag, "\n".join(rows), tag)
        pat = re.compile(r"<!-- GEN:%s -->.*?<!-- /GEN:%s -->" % (tag, tag), re.S)
        if pat.search(s):
            s = pat.sub(lambda m: block, s)
        else:
            print("marker for %s missing" % tag)
    open(p, "w").write(s)
    print("DESIGN.md tables refreshed: %d fixes, %d known, %d seeds" % (len(t1) - 2, len(t2) - 2, len(t3) - 2))


if __name__ == "__main__":
    main()
