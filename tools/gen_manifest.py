#!/usr/bin/env python3
"""Regenerate /verif/MANIFEST.json from the table below and the checks that exist
(hiolint/props/cXX.py).  Properties without a check module are listed under
not_applicable with the reason given in NOT_APPLICABLE (or 'check not built yet')."""
import json
import os

HERE = os.path.dirname(os.path.dirname(os.path.abspath(__file__)))

TECH = {
    "C01": ("typestate over abstract interpretation (lifecycle DFA, exit bracket, deed conservation)",
            "calls may raise Exception, yields GeneratorExit/Exception; user overrides not analysed"),
    "C02": ("deque-end agreement + typestate (marker-in-deque, entered-local-deque) over abstract interpretation",
            "order of a mid-cycle remove and correctness of a reordering in exit are not decided"),
    "C03": ("dependence sets and canonical comparisons by abstract interpretation of recur/enter/tick",
            "float rounding and enter position after a mid-cycle extend are not decided"),
    "C04": ("fact-level sibling agreement Doist vs DoDoer under a correspondence table",
            "trace equality itself is not decided"),
    "C05": ("typestate/ordering over abstract interpretation of Doist.do/ado + done-store provenance + Tymer linear forms",
            "numeric limit arithmetic, interpreter version dependence of generator.close() not decided"),
    "C06": ("def-use of the filtered list, rotation conservation typestate, who-may-write on .doers",
            "duplicates inside one extend argument and ordering clause not decided"),
    "C07": ("must-pass-through typestate between recur calls + duration provenance (def-use) + paired-update check",
            "actual sleeping behaviour and forward clock jumps not decided"),
    "C08": ("linear-form normalisation of timer formulas with sibling agreement",
            "floating point not decided"),
    "C09": ("def-use + typestate on send/receive buffer bookkeeping of four sibling classes; who-may-write",
            "kernel/TLS behaviour not decided"),
    "C10": ("errno table evaluation (set inclusion, kind agreement) + handler typestate + isolation of per-connection calls + unbound-name analysis",
            "real peer behaviour not decided"),
    "C11": ("container close-coverage, replace/delete discipline and close-then-None typestate",
            "descriptor counts at run time not decided"),
    "C12": ("keyword-binding (kwarg swallow) analysis + def-use of tymeout + sibling refresh agreement",
            "promptness of closing not decided"),
    "C13": ("typestate consume-after-complete over parser generators + terminator selection dependence analysis",
            "equality of results over all partitions not decided"),
    "C14": ("writer/reader codec agreement (inverse table) over def-use",
            "recovery for all strings not decided"),
    "C15": ("terminator hazard + dispatch-table exhaustiveness + branch agreement",
            "event equality over all streams not decided"),
    "C16": ("interprocedural raise/catch analysis with input taint from the service entry points; mutation-during-iteration",
            "exceptions from operations outside the printed raiser table not decided"),
    "C17": ("sanitizer dominance for int(x,16) + writer/reader radix and framing agreement",
            "decode equality over all bodies not decided"),
    "C18": ("init/reset definite-assignment agreement + clamp linear form + ordering guards",
            "cross product version x keep-alive x app output not decided"),
    "C19": ("who-may-call / guard dominance / queue-end agreement on the client request pipeline",
            "server behaviours not decided"),
    "C20": ("header layout agreement (linear forms), table partition checks, first-only storage guards, completion-memory pigeonhole",
            "reconstruction under all orders not decided"),
    "C21": ("gram ownership typestate over abstract interpretation + errno table evaluation",
            "transport behaviour not decided"),
    "C22": ("raise/catch analysis with taint from received grams + authentication gate dominance",
            "cryptographic soundness of the signature scheme not decided"),
    "C23": ("unbound-name analysis + cache/durable operation pairing table + dispatch agreement",
            "model equivalence over histories and crash points not decided"),
    "C24": ("call-site argument pass-through, suffix writer/reader agreement, foreign-key guard dominance, key-range disjunction",
            "model equivalence over operation sequences not decided"),
    "C25": ("positional orientation flow (def-use through tuple return/unpack), tentative/commit reaching definitions, call order",
            "getattr-dispatched verbs are outside the analysis"),
    "C26": ("recoverability dependence (information flow), radix/pad linear-form agreement, alphabet table evaluation",
            "the arithmetic over all integers is not decided"),
    "C27": ("paired-write typestate over abstract interpretation of the Namer mutators",
            "inductive argument over histories not decided"),
    "C28": ("codec pairing and common-intermediate checks over resolved callees",
            "equality after third-party codecs not decided"),
    "C29": ("taint-to-sink containment sanitizer dominance + path-depth abstract domain",
            "filesystem state itself not decided"),
    "C30": ("fact-level sibling agreement Doist.do vs Doist.ado under a correspondence table",
            "asyncio loop scheduling itself not decided"),
}

NOT_APPLICABLE = {}


def main():
    props = [json.loads(l) for l in open(os.path.join(HERE, "properties.jsonl"))]
    checks, na = [], []
    for p in props:
        pid = p["id"]
        if pid in NOT_APPLICABLE:
            na.append({"property_id": pid, "reason": NOT_APPLICABLE[pid]})
            continue
        if not os.path.exists(os.path.join(HERE, "hiolint", "props", pid.lower() + ".py")):
            na.append({"property_id": pid, "reason": "static check not built yet in this round (design in DESIGN.md section 2.%s); "
                                                      "not claimed until its rules run clean with canaries" % pid})
            continue
        tech, note = TECH[pid]
        checks.append({
            "property_id": pid,
            "quick_cmd": "./check %s" % pid,
            "thorough_cmd": "./check %s --tier thorough" % pid,
            "evidence_file": "evidence/%s.json" % pid,
            "replay_cmd_template": "./check %s --replay {path}" % pid,
            "engine": "hiolint",
            "level_claimed": {
                "category": "other",
                "text": "static analysis: path-exhaustive / table-exhaustive decision of the structural clauses named in "
                        "DESIGN.md section 2.%s (necessary conditions of the property read from /repo/src on every run); "
                        "the behaviour itself is not decided" % pid,
                "design_ref": "DESIGN.md section 2.%s" % pid,
            },
            "level_note": "trusted: python ast parser, hiolint resolution/interpretation, frozen idiom tables; " + note,
            "technique": "static analysis: " + tech,
        })
    man = {
        "version": 1,
        "setup_cmd": "./tools/setup.sh",
        "hooks": {"guard": "HIO_VERIF", "enable": "none needed: checks parse /repo/src, nothing is built or run",
                  "baseline_off_cmd": "cd /repo && /venv/bin/python -m pytest -ra -q -p no:cacheprovider --timeout=900 --continue-on-collection-errors",
                  "source_commits": [], "add_only": True},
        "engines": [{"name": "hiolint", "path": "hiolint/", "serves_properties": [c["property_id"] for c in checks],
                     "kind_free_text": "repository-specific static analyser: stdlib ast, program index with MRO/call resolution, "
                                       "syntax-directed abstract interpreter (typestate, dependence sets), raise/catch analysis, "
                                       "constant table evaluation; in-memory mutation matrix as self-test"}],
        "checks": checks,
        "not_applicable": na,
        "notes": "All checks are static (ast-based) and read /repo/src on every run; exit 2 = ANALYSIS-ERROR (anchor vanished, "
                 "floor miss, canary miss, unrecognised idiom = INCONCLUSIVE). Sources are shape-normalised at load time and call edges that are new "
                 "relative to hiolint/baseline_calls.json (frozen call graph, a hint about where to expand only) are expanded in place; "
                 "restructurings the recognisers do not follow yet are listed with their result in refactors/ and DESIGN.md 11.6b. "
                 "Known findings: known_findings.json. See DESIGN.md.",
    }
    with open(os.path.join(HERE, "MANIFEST.json"), "w") as f:
        json.dump(man, f, indent=1)
    print("MANIFEST.json: %d checks, %d not_applicable" % (len(checks), len(na)))


if __name__ == "__main__":
    main()
