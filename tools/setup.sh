#!/bin/sh
# Offline setup: nothing to install (pure stdlib).  Byte-compile check only.
here=$(cd "$(dirname "$0")/.." && pwd)
if [ -x /venv/bin/python ]; then PY=/venv/bin/python; else PY=python3; fi
cd "$here" && PYTHONDONTWRITEBYTECODE=1 "$PY" - <<'PY'
import ast, glob, sys
for p in glob.glob("hiolint/**/*.py", recursive=True):
    ast.parse(open(p).read(), p)
print("hiolint sources parse")
PY
mkdir -p "$here/evidence"
