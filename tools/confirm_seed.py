#!/usr/bin/env python3
"""Confirm a seeded change and record it under /verif/seeded/<name>/.
usage: tools/confirm_seed.py <dir with patch.diff demo.py [meta.json]> <name> [--netns]
Steps (scratch worktree /tmp/seedtest at /repo HEAD): demo passes on the clean tree, patch applies, demo fails
with it, every built check is run against the patched tree; results go to seeded/<name>/meta.json."""
import glob
import json
import os
import shutil
import subprocess
import sys

VERIF = os.path.dirname(os.path.dirname(os.path.abspath(__file__)))
WT = "/tmp/seedtest"
BASELINE_FAIL = {"test_asyncio_await_method", "test_doist_dos", "test_filing", "test_client_request_echo_port_empty",
                 "test_requester_respondent_echo_tls"}     # fail on the unmodified tree (tree tests, PYTHONPATH=<wt>/src)


# real-time / multiprocess tests with 0.07-0.1 s limits: they fail now and then on the unmodified tree whenever several suites run at
# once (observed on clean trees by every seeding agent); a failure of one of them is not attributed to the change under test
FLAKY_UNDER_LOAD = {"test_boss_crew_basic", "test_boss_crew_basic_multi", "test_doist_asyncio"}


def run_tree_tests():
    """the repository's own tests against the scratch worktree's sources, in a private network namespace"""
    # private network namespace (fixed ports) and private mounts over the fixed directories the tests write to
    # (/usr/local/var/hio, /tmp/hio): parallel runs must not see each other's files
    cmd = ["unshare", "-n", "-m", "sh", "-c", "mount -t tmpfs tmpfs /usr/local/var/hio; mkdir -p /tmp/hio; mount -t tmpfs tmpfs /tmp/hio; "
           "ip link set lo up; cd %s && PYTHONPATH=%s/src PYTHONDONTWRITEBYTECODE=1 "
           "timeout 1500 /venv/bin/python -m pytest -q -p no:cacheprovider tests 2>&1 | tail -15" % (WT, WT)]
    r = subprocess.run(cmd, capture_output=True, text=True)
    import re
    failed = set(re.findall(r"FAILED \S+::(\w+)", r.stdout)) - FLAKY_UNDER_LOAD
    tail = r.stdout.strip().splitlines()[-1] if r.stdout.strip() else "no output"
    return sorted(failed - BASELINE_FAIL), tail


def sh(*a, **k):
    return subprocess.run(a, capture_output=True, text=True, **k)


def run_demo(demo, netns):
    env = dict(os.environ, PYTHONPATH=os.path.join(WT, "src"), PYTHONDONTWRITEBYTECODE="1")
    cmd = ["/venv/bin/python", demo]
    if open(demo).read().count("def test_") and "__main__" not in open(demo).read():
        cmd = ["/venv/bin/python", "-m", "pytest", "-q", "-p", "no:cacheprovider", demo]
    if netns:
        cmd = ["unshare", "-n", "sh", "-c", "ip link set lo up; exec " + " ".join(cmd)]
    try:
        r = subprocess.run(cmd, capture_output=True, text=True, env=env, cwd="/tmp", timeout=600)
        return r.returncode, (r.stdout + r.stderr)[-600:]
    except subprocess.TimeoutExpired:
        return 124, "timeout"


def main():
    global WT
    src, name = os.path.abspath(sys.argv[1]), sys.argv[2]
    netns = "--netns" in sys.argv
    if "--wt" in sys.argv:
        WT = sys.argv[sys.argv.index("--wt") + 1]
    patch, demo = os.path.join(src, "patch.diff"), os.path.join(src, "demo.py")
    if not os.path.isdir(WT):
        sh("git", "-C", "/repo", "worktree", "add", "-q", "--detach", WT, "HEAD")
    head = sh("git", "-C", "/repo", "rev-parse", "HEAD").stdout.strip()
    sh("git", "-C", WT, "checkout", "-q", "--detach", head)
    sh("git", "-C", WT, "reset", "-q", "--hard", head)
    text = open(demo).read()
    # demos written against the agent's own worktree: point them at the scratch worktree
    tmpdemo = WT + ".demo.py"
    import re
    open(tmpdemo, "w").write(re.sub(r"/tmp/seed\d?/C\d+(?=/|['\"])", WT, text))
    rc_clean, out_clean = run_demo(tmpdemo, netns)
    r = sh("git", "-C", WT, "apply", patch)
    if r.returncode:
        r = sh("git", "-C", WT, "apply", "--3way", patch)
    if r.returncode:
        print("PATCH DOES NOT APPLY:", r.stderr[:300])
        return 1
    applied = sh("git", "-C", WT, "diff", "HEAD").stdout
    rc_pat, out_pat = run_demo(tmpdemo, netns)
    checks = sorted(os.path.basename(p)[:-3].upper() for p in glob.glob(os.path.join(VERIF, "hiolint/props/c*.py")))
    newfail, testtail = (None, "not run")
    if "--tests" in sys.argv:
        newfail, testtail = run_tree_tests()
    env = dict(os.environ, HIOLINT_REPO=WT, HIOLINT_EVID=WT + ".evid", HIOLINT_JOBS="1")
    fired, errors = {}, {}
    from concurrent.futures import ThreadPoolExecutor
    with ThreadPoolExecutor(8) as ex:
        results = list(ex.map(lambda c: (c, sh(os.path.join(VERIF, "check"), c, env=env, cwd=VERIF)), checks))
    shutil.rmtree(WT + ".evid", ignore_errors=True)
    for c, r in results:
        if r.returncode == 1:
            fired[c] = [l[:300] for l in r.stdout.splitlines() if l.startswith("src/")][:4]
        elif r.returncode == 2:
            errors[c] = [l[:300] for l in r.stdout.splitlines() if "ANALYSIS-ERROR" in l][:2]
    sh("git", "-C", WT, "reset", "-q", "--hard", head)
    sh("git", "-C", WT, "clean", "-fdq")
    os.remove(tmpdemo)
    print("%s: demo clean rc=%s, patched rc=%s; tests: new failures=%s (%s); fired=%s errors=%s" % (
        name, rc_clean, rc_pat, newfail, testtail, sorted(fired), sorted(errors)))
    refactor = "--refactor" in sys.argv
    confirmed = rc_clean == 0 and not newfail and ((rc_pat == 0) if refactor else (rc_pat != 0))
    if not confirmed:
        print("NOT CONFIRMED\n--- clean:\n%s\n--- patched:\n%s" % (out_clean, out_pat))
        return 1
    dst = os.path.join(VERIF, "refactors" if refactor else "seeded", name)
    os.makedirs(dst, exist_ok=True)
    open(os.path.join(dst, "patch.diff"), "w").write(applied)
    if os.path.abspath(demo) != os.path.abspath(os.path.join(dst, "demo.py")):
        shutil.copy(demo, os.path.join(dst, "demo.py"))
    meta = {}
    if os.path.exists(os.path.join(src, "meta.json")):
        try:
            meta = json.load(open(os.path.join(src, "meta.json")))
        except Exception:
            meta = {}
    if "checks_fired" in meta and "checks_fired_when_first_confirmed" not in meta:
        meta["checks_fired_when_first_confirmed"] = sorted(meta["checks_fired"])
    meta.update({"name": name, "repo_head_when_confirmed": head,
                 "confirmed": {"demo_on_clean_tree_rc": rc_clean, "demo_with_patch_rc": rc_pat,
                               "tree_tests_with_patch": {"new_failures_beyond_baseline": newfail, "summary": testtail},
                               "how": "scratch worktree of /repo HEAD; PYTHONPATH=<wt>/src /venv/bin/python demo.py"},
                 "checks_fired": fired, "checks_analysis_error": errors,
                 "detected": bool(fired)})
    if refactor:
        meta["kind"] = "refactor"
        meta["silent"] = not fired and not errors
        del meta["detected"]
    json.dump(meta, open(os.path.join(dst, "meta.json"), "w"), indent=1)
    return 0


if __name__ == "__main__":
    sys.exit(main())
