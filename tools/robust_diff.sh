#!/bin/sh
# usage: tools/robust_diff.sh <variant tree>   -- diff the obligations (rule, key, verdict) of every check between /repo and a
# behaviour-preserving variant tree.  Any difference is a spelling-dependent recogniser (false alarm / unstable key).
V=${1:-/tmp/seedtest}
cd "$(dirname "$0")/.."
rc=0
for i in $(seq -w 1 30); do
  ( /venv/bin/python tools/obs.py C$i | cut -f1-3 | sort > /tmp/rd.a.$i; /venv/bin/python tools/obs.py C$i "$V" | cut -f1-3 | sort > /tmp/rd.b.$i ) &
done
wait
for i in $(seq -w 1 30); do
  if ! diff -q /tmp/rd.a.$i /tmp/rd.b.$i >/dev/null; then echo "== C$i"; diff /tmp/rd.a.$i /tmp/rd.b.$i | cut -c1-220; rc=1; fi
  rm -f /tmp/rd.a.$i /tmp/rd.b.$i
done
[ $rc = 0 ] && echo "all 30 checks: identical obligations on both trees"
exit $rc
