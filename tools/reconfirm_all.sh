#!/bin/sh
# Re-confirm every recorded seed against /repo HEAD with the current checks (refreshes seeded/*/meta.json).
cd "$(dirname "$0")/.." || exit 1
for d in seeded/*/; do
  n=$(basename "$d")
  timeout 900 tools/confirm_seed.py "$d" "$n" --netns 2>&1 | tail -1 | cut -c1-200
done
