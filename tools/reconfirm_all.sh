#!/bin/sh
# Re-confirm every recorded seed against /repo HEAD with the current checks (refreshes seeded/*/meta.json).
# Six scratch worktrees /tmp/cs1..6 are created and removed; demos run in private network namespaces.
cd "$(dirname "$0")/.." || exit 1
N=6
for k in $(seq 1 $N); do git -C /repo worktree remove --force /tmp/cs$k 2>/dev/null; git -C /repo worktree add -q --detach /tmp/cs$k HEAD; done
ls -d ${SEEDDIR:-seeded}/*/ | awk -v n=$N '{print > "/tmp/reconf." (NR % n + 1)}'
for k in $(seq 1 $N); do
  ( while read d; do n=$(basename "$d"); timeout 1500 tools/confirm_seed.py "$d" "$n" --netns ${EXTRA} --wt /tmp/cs$k "$@" 2>&1 | head -1 | cut -c1-260; done < /tmp/reconf.$k ) > /tmp/reconf.out.$k 2>&1 &
done
wait
cat /tmp/reconf.out.* | sort
for k in $(seq 1 $N); do git -C /repo worktree remove --force /tmp/cs$k; rm -f /tmp/reconf.$k /tmp/reconf.out.$k; done
git -C /repo worktree prune
rm -rf /tmp/hio_* 2>/dev/null
