#!/usr/bin/env python3
"""Freeze the call graph of the tree the rules were written for: hiolint/baseline_calls.json ({function: callee names}, {class:
class-level names}).  hiolint/inline.py expands, at analysis time, only call edges that are NOT in this table (helpers introduced
by later refactorings).  Re-run only when the rules themselves are revised against a new tree."""
import json
import os
import sys
sys.path.insert(0, os.path.dirname(os.path.dirname(os.path.abspath(__file__))))
os.environ["HIOLINT_NO_INLINE"] = "1"
from hiolint import index, inline  # noqa: E402
ix = index.Index()
t = inline.build_table(ix)
json.dump(t, open(inline.TABLE, "w"), indent=0, sort_keys=True)
print("functions", len(t["calls"]), "classes", len(t["class_assigns"]))
